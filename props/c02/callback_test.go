package c02

import (
	"encoding/json"
	"fmt"
	"strings"
	"testing"

	"github.com/robertkrimen/otto"

	"verif/lib/harness"
)

// Facet host-callbacks: SCRIPT functions entered directly from Go while no script is running (host
// callbacks, timers, event loops: Value.Call, Object.Call, Otto.Call, getters/setters and conversion
// methods reached through Object.Get/Set, Value.String/ToFloat/Export/MarshalJSON), and re-entered from
// host functions, whose bodies do the things that depend on the activation and the scope chain:
// f.caller, f.arguments, arguments.callee/caller, this, eval, new Error().stack, throw, recursion,
// deletable bindings, with, try/finally.

// %F is the function itself (its own name, or arguments.callee).
var callbackBodies = []string{
	`return %F.caller`, `var c = %F.caller; return c === null`, `return %F.arguments`, `return %F.arguments === arguments`,
	`return arguments.caller`, `return arguments.callee`, `return %F.caller.caller`, `return typeof %F.caller + typeof %F.arguments`,
	`return this`, `return typeof this`, `return eval("this")`, `return (0,eval)("this")`, `return eval("%F.caller")`, `return eval("arguments.callee.caller")`,
	`return new Error("e").stack`, `return new Error().stack.length`, `return (function(){ try { null.x } catch (e) { return e.stack } })()`,
	`throw new Error("thrown")`, `throw 1`, `throw null`, `throw {toString: function(){ return "obj" }}`, `null.x`, `return this.x.y.z`, `return undeclared_z`,
	`return g.caller`, `return g.arguments`, `return Math.max.caller`, `return Function.prototype.caller`, `return %F.bind(null).caller`, `return h.caller`,
	`return Object.getOwnPropertyDescriptor(%F,"caller").get.call(%F)`, `return Object.getOwnPropertyDescriptor(%F,"caller").get.call(g)`,
	`return Object.getOwnPropertyDescriptor(%F,"caller").get.call(1)`, `return Object.getOwnPropertyDescriptor(%F,"arguments").get.call(%F)`,
	`return Object.getOwnPropertyDescriptor(g,"caller").get.call(%F)`, `return Object.getOwnPropertyDescriptor(arguments,"callee")`,
	`return Object.getOwnPropertyNames(%F).map(function(n){ return typeof %F[n] }).join()`,
	`return [1,2].map(function(){ return %F.caller })`, `return [1].map(function(){ return arguments.callee.caller })`, `return [2,1].sort(function(){ return %F.caller ? 1 : -1 })`,
	`return (function(){ return arguments.callee.caller })()`, `return (function inner(){ return inner.caller.caller })()`, `return (function inner(){ return inner.caller === %F })()`,
	`if (a !== "stop") return %F("stop"); return %F.caller`, `if (a !== "stop") return %F.call(null, "stop"); return %F.caller.caller`,
	`if (a !== "stop") return %F.apply(this, ["stop"]); return %F.arguments`, `if (a === "stop") return; return new %F("stop")`, `return %F()`,
	`return "x".replace(/x/, function(){ return String(%F.caller) })`, `return JSON.stringify({c: %F.caller, toJSON: function(){ return %F.caller }})`, `return String(%F.caller) + %F.caller`,
	`eval("var q = 1"); return delete q`, `eval("var q = 1"); q = (delete q, 2); return q`, `eval("var q = 1"); q += (delete q, 2); return typeof q`, `eval("function q(){}"); return q(delete q)`,
	`undeclared_x = 1; return delete undeclared_x`, `return typeof undeclared_y`, `var v = (delete v, 1); return v`, `return delete a`, `return delete arguments`,
	`with ({w: 1}) { return w + String(%F.caller) }`, `with (arguments) { return length + callee.caller }`, `try { return %F.caller } finally { %F.arguments }`, `try { throw 1 } catch (e) { return %F.caller }`,
	`try { throw 1 } finally { %F.caller }`, `L: { try { break L } finally { return %F.caller } }`,
	`return h(function(){ return %F.caller })`, `return h(%F.caller)`, `return h(function inner(){ return inner.caller })`, `return h(function(){ throw new TypeError("inner") })`, `return h(h)`, `return h(g)`,
	`arguments[0] = 5; return a`, `a = 7; return arguments[0]`, `return arguments.length + %F.length + %F.name`, `arguments.length = 0; return %F.arguments.length`,
	`return Function("return this")()`, `return Function("return arguments.callee.caller")()`, `return Function.prototype.toString.call(%F.caller || %F)`, `debugger; return 1`,
	`%F.caller = 1; %F.arguments = 2; return %F.caller`, `delete %F.caller; return %F.caller`, `Object.defineProperty(%F, "caller", {value: 1}); return %F.caller`,
	`return Object.keys(this).length`, `this.leak = %F; return leak.caller`, `return typeof setTimeout + typeof console.log(%F.caller)`,
}

type callbackCase struct {
	Body  string `json:"body"`  // callbackBodies entry
	Named bool   `json:"named"` // %F = the function's own name f (named function expression) or arguments.callee
}

var callbackThis = []string{"undefined", "null", "one", "ascii", "object", "function", "global"}

func callbackRoutes() []string {
	return []string{"Value.Call", "Value.Call(this kinds)", "Object.Call", "Otto.Call(nil)", "Otto.Call(this)", "Otto.Call(new)", "bound Value.Call",
		"native-at-rest map", "native-at-rest apply", "host-reentry under Run", "host-reentry at rest", "getter via Object.Get", "setter via Object.Set",
		"toString via Value.String", "valueOf via Value.ToFloat", "toJSON via MarshalJSON", "getter via Value.Export", "under Run", "under Eval", "second call on the same runtime"}
}

func (c callbackCase) fn() string {
	f := "arguments.callee"
	name := ""
	if c.Named {
		f, name = "f", " f"
	}
	return "(function" + name + "(a, b) { " + strings.ReplaceAll(c.Body, "%F", f) + " })"
}

func runCallback(c callbackCase) (res jobResult) {
	fnSrc := c.fn()
	ks := kindList()
	kindExpr := func(name string) string {
		for _, k := range ks {
			if k.Name == name {
				return k.Expr
			}
		}
		return "undefined"
	}
	for ri, route := range callbackRoutes() {
		vm := newVM(64, 50_000)
		res.Panics = append(res.Panics, prepareVM(vm)...)
		_ = vm.Set("h", func(call otto.FunctionCall) otto.Value {
			v, err := call.Argument(0).Call(call.This, 1, "two")
			if err != nil {
				panic(call.Otto.MakeCustomError("HostError", err.Error()))
			}
			return v
		})
		_, _ = vm.Run(`function g(x) { return x }`)
		var err error
		call := func(where string, fn func()) {
			harness.Arm(vm, 50_000)
			p, b, text := guard(fn)
			rec := callRecord{Sub: ri, Recv: route, Way: route, NT: true}
			switch {
			case p:
				rec.Out = "panic"
				res.Panics = append(res.Panics, escaped{Where: where + " of " + fnSrc, Text: text, Sub: ri})
			default:
				rec.Out = describeOutcome(err, b)
			}
			res.Calls = append(res.Calls, rec)
		}
		value := func(src string) otto.Value {
			var v otto.Value
			guard(func() { v, _ = vm.Run(src) })
			return v
		}
		switch route {
		case "Value.Call":
			f := value(fnSrc)
			call(route, func() { _, err = f.Call(otto.UndefinedValue(), 1, "two") })
		case "Value.Call(this kinds)":
			f := value(fnSrc)
			for _, tk := range callbackThis {
				this := value("(" + kindExpr(tk) + ")")
				call(route+" this="+tk, func() { _, err = f.Call(this, this) })
			}
		case "Object.Call":
			var o *otto.Object
			guard(func() { o, _ = vm.Object("({m: " + fnSrc + "})") })
			if o != nil {
				call(route, func() { _, err = o.Call("m", 1) })
			}
		case "Otto.Call(nil)":
			call(route, func() { _, err = vm.Call(fnSrc, nil, 1) })
		case "Otto.Call(this)":
			call(route, func() { _, err = vm.Call(fnSrc, map[string]interface{}{"x": 1}, 1) })
		case "Otto.Call(new)":
			call(route, func() { _, err = vm.Call("new "+fnSrc, nil, 1) })
		case "bound Value.Call":
			f := value(fnSrc + ".bind({x: 1}, 1)")
			call(route, func() { _, err = f.Call(otto.NullValue()) })
		case "native-at-rest map":
			m, arr, f := value("Array.prototype.map"), value("[1, 2]"), value(fnSrc)
			call(route, func() { _, err = m.Call(arr, f) })
		case "native-at-rest apply":
			ap, f := value("Function.prototype.apply"), value(fnSrc)
			call(route, func() { _, err = ap.Call(f, otto.NullValue(), value("[1]")) })
		case "host-reentry under Run":
			call(route, func() { _, err = vm.Run("h(" + fnSrc + ")") })
		case "host-reentry at rest":
			h, f := value("h"), value(fnSrc)
			call(route, func() { _, err = h.Call(otto.UndefinedValue(), f) })
		case "getter via Object.Get":
			var o *otto.Object
			guard(func() { o, _ = vm.Object("Object.defineProperty({}, 'p', {get: " + fnSrc + "})") })
			if o != nil {
				call(route, func() { _, err = o.Get("p") })
			}
		case "setter via Object.Set":
			var o *otto.Object
			guard(func() { o, _ = vm.Object("Object.defineProperty({}, 'p', {set: " + fnSrc + "})") })
			if o != nil {
				call(route, func() { err = o.Set("p", 1) })
			}
		case "toString via Value.String":
			v := value("({toString: " + fnSrc + "})")
			call(route, func() { _ = v.String(); _, err = v.ToString() })
		case "valueOf via Value.ToFloat":
			v := value("({valueOf: " + fnSrc + "})")
			call(route, func() { _, err = v.ToFloat(); _ = v.IsNaN() })
		case "toJSON via MarshalJSON":
			v := value("({toJSON: " + fnSrc + "})")
			call(route, func() { _, err = json.Marshal(v) })
		case "getter via Value.Export":
			v := value("Object.defineProperty({}, 'p', {get: " + fnSrc + ", enumerable: true})")
			call(route, func() { _, err = v.Export() })
		case "under Run":
			call(route, func() { _, err = vm.Run(fnSrc + "(1)") })
		case "under Eval":
			call(route, func() { _, err = vm.Eval(fnSrc + ".call({}, 1)") })
		case "second call on the same runtime":
			f := value(fnSrc)
			call(route+" #1", func() { _, err = f.Call(otto.UndefinedValue(), 1) })
			call(route+" #2", func() { _, err = f.Call(f, "stop") })
			call(route+" Run after", func() { _, err = vm.Run(fnSrc + "()") })
		}
	}
	return res
}

const callbackCallsFacet = "host-callbacks/calls"

func checkCallback(c callbackCase) harness.Outcome {
	out := harness.Outcome{Nontrivial: true}
	res, fatal := dispatch(job{Kind: "callback", Callback: &c})
	if fatal != "" {
		out.Fail = fmt.Sprintf("script function %s entered from Go: %s\n(property C02: Value.Call/Object.Call/Otto.Call/Get/Set return; the process survives)", c.fn(), oneLine(fatal, 700))
		return out
	}
	if res.Note != "" {
		out.Fail = "worker: " + res.Note
		return out
	}
	for _, r := range res.Calls {
		harness.Count(callbackCallsFacet, true, c.fn()+"|"+r.Way, "route:"+callbackRoutes()[r.Sub], "outcome:"+r.Out)
	}
	if len(res.Panics) > 0 {
		p := res.Panics[0]
		out.Fail = fmt.Sprintf("a Go panic crossed the public API: %s\n  in %s\n  (%d escaping panics over %d entries of this function)\n(property C02: no Go runtime panic escapes Value.Call/Object.Call/Otto.Call/Get/Set/Export)", p.Text, p.Where, len(res.Panics), len(res.Calls))
	}
	return out
}

var callbackFacet = harness.Register(&harness.Facet[callbackCase]{
	Name:  "host-callbacks",
	Rule:  "enumeration: script functions whose body is one of 86 activation- and scope-dependent statements (own and foreign .caller / .arguments read directly, through eval, closures, array callbacks, the accessor's getter called on every kind of receiver; arguments.callee/caller; this; direct and indirect eval; new Error().stack; throws of every kind; bounded and unbounded self-recursion through call/apply/new; eval-declared bindings deleted in the middle of assignments; with; try/finally and labelled exits; re-entry through a host function; redefinition of caller/arguments), with the function named or anonymous, × 20 ways of entering it: Value.Call (7 this kinds), Object.Call, Otto.Call with nil / Go this / new, a bound function, native map/apply called from Go at rest, a host function re-entering under Run and at rest, as getter (Object.Get, Value.Export), setter (Object.Set), toString (Value.String), valueOf (Value.ToFloat/IsNaN), toJSON (json.Marshal), under Run, under Eval, and repeated calls on one runtime. One fresh runtime per (function, route), stack depth limit 64, poll budget, worker subprocess. Oracle: every entry returns a value or an error, no Go panic crosses, the worker survives. Non-trivial: every case (the function runs as the outermost activation); distinct by (function text, route)",
	Check: checkCallback,
})

func TestHostCallbacks(t *testing.T) {
	harness.SetRule(callbackCallsFacet, "the individual entries made by facet host-callbacks (see there)")
	if harness.Shard() != 0 {
		return
	}
	var cases []callbackCase
	for _, b := range callbackBodies {
		cases = append(cases, callbackCase{Body: b, Named: true}, callbackCase{Body: b, Named: false})
	}
	harness.SetExhaustive("host-callbacks")
	callbackFacet.Each(t, cases)
}
