// Package c02 decides property C02: no script can crash or wedge the embedding Go program.
//
// Every hostile case is executed in a worker subprocess (harness.RegisterWorker): Go panics that
// cross the public API are recovered *inside the worker* and reported back as text; a worker that
// dies (fatal stack overflow, out of memory) or stops answering is detected by the parent.
package c02

import (
	"encoding/binary"
	"encoding/json"
	"fmt"
	"os"
	"path/filepath"
	"runtime"
	"runtime/debug"
	"strings"
	"sync"
	"syscall"
	"testing"
	"time"

	"github.com/robertkrimen/otto"

	"verif/lib/harness"
)

func TestMain(m *testing.M) {
	harness.RegisterWorker("c02", serve)
	registerWitnesses()
	harness.Main(m, "C02")
}

// ---- wire format ------------------------------------------------------------------------------------

type job struct {
	Kind     string        `json:"kind"`
	Known    []string      `json:"known,omitempty"`   // active known-finding ids (the worker does not replay witnesses)
	Journal  string        `json:"journal,omitempty"` // file receiving the index of the sub-call in flight
	Source   *sourceCase   `json:"source,omitempty"`
	Builtin  *builtinCase  `json:"builtin,omitempty"`
	Recur    *recurCase    `json:"recur,omitempty"`
	Access   *accessCase   `json:"access,omitempty"`
	Witness  string        `json:"witness,omitempty"`
	Sweep    *sweepCase    `json:"sweep,omitempty"`
	Callback *callbackCase `json:"callback,omitempty"`
}

// escaped is one Go panic that crossed otto's public API (recovered inside the worker).
type escaped struct {
	Where string `json:"where"` // entry point / sub-call descriptor
	Text  string `json:"text"`  // panic value
	Sub   int    `json:"sub"`   // sub-call index (builtin facet), else 0
}

type jobResult struct {
	Panics     []escaped      `json:"panics,omitempty"`
	Wrong      []string       `json:"wrong,omitempty"` // other violated expectations (recursion facet: not a RangeError …)
	Classes    []string       `json:"classes,omitempty"`
	Excluded   []string       `json:"excluded,omitempty"`
	Nontrivial bool           `json:"nontrivial,omitempty"`
	Calls      []callRecord   `json:"calls,omitempty"` // builtin facet: one record per executed API call
	Note       string         `json:"note,omitempty"`
	Counts     map[string]int `json:"counts,omitempty"`
	Millis     int64          `json:"ms,omitempty"`
}

// ---- worker side ------------------------------------------------------------------------------------

var (
	activeKnown = map[string]bool{} // worker: set per request; parent: mirrors harness.Known
	guardOnce   sync.Once
)

func known(id string) bool {
	if os.Getenv("VERIF_WORKER") != "" {
		return activeKnown[id]
	}
	return harness.Known(id)
}

const memGuardBytes = 1500 << 20

// memoryGuard ends the worker with a recognisable message when a case allocates without bound,
// before the machine suffers (ten builders share it).
func memoryGuard() {
	go func() {
		var ms runtime.MemStats
		for {
			time.Sleep(100 * time.Millisecond)
			runtime.ReadMemStats(&ms)
			if ms.HeapAlloc > memGuardBytes {
				fmt.Fprintf(os.Stderr, "fatal error: c02 memory guard: heap grew to %d MB (limit %d MB)\n", ms.HeapAlloc>>20, memGuardBytes>>20)
				os.Exit(3)
			}
		}
	}()
}

func serve(raw json.RawMessage) json.RawMessage {
	guardOnce.Do(func() {
		memoryGuard()
		debug.SetGCPercent(50)
		redirectStderr()
	})
	var j job
	if err := json.Unmarshal(raw, &j); err != nil {
		b, _ := json.Marshal(jobResult{Note: "bad request: " + err.Error()})
		return b
	}
	activeKnown = map[string]bool{}
	for _, k := range j.Known {
		activeKnown[k] = true
	}
	var res jobResult
	started := time.Now()
	defer func() { _ = started }()
	switch j.Kind {
	case "source":
		res = runSource(*j.Source)
	case "builtin":
		jr := openJournal(j.Journal)
		res = runBuiltin(*j.Builtin, jr)
		jr.close()
	case "recur":
		res = runRecur(*j.Recur)
	case "access":
		jr := openJournal(j.Journal)
		res = runAccess(*j.Access, jr)
		jr.close()
	case "sweep":
		jr := openJournal(j.Journal)
		res = runSweep(*j.Sweep, jr)
		jr.close()
	case "callback":
		res = runCallback(*j.Callback)
	case "witness":
		res = runWitness(j.Witness)
	default:
		res.Note = "unknown job kind " + j.Kind
	}
	res.Millis = time.Since(started).Milliseconds()
	b, err := json.Marshal(res)
	if err != nil {
		b, _ = json.Marshal(jobResult{Note: "cannot encode result: " + err.Error()})
	}
	return b
}

// redirectStderr points fd 2 of the worker at a file chosen by the parent, so that the *head* of a Go
// crash report (reason and innermost frames) survives; the harness keeps only the last 8 KB of the pipe.
func redirectStderr() {
	path := os.Getenv("C02_STDERR")
	if path == "" {
		return
	}
	f, err := os.OpenFile(path, os.O_CREATE|os.O_WRONLY|os.O_TRUNC, 0o644)
	if err != nil {
		return
	}
	_ = syscall.Dup2(int(f.Fd()), 2)
}

// crashHead extracts reason and the first otto frames from a crash report file.
func crashHead(path string) string {
	b, err := os.ReadFile(path)
	if err != nil || len(b) == 0 {
		return ""
	}
	if len(b) > 1<<20 {
		b = b[:1<<20]
	}
	var reason []string
	var frames []string
	for _, line := range strings.Split(string(b), "\n") {
		t := strings.TrimSpace(line)
		switch {
		case strings.HasPrefix(t, "fatal error:"), strings.HasPrefix(t, "panic:"), strings.HasPrefix(t, "runtime: goroutine stack exceeds"):
			if len(reason) < 3 {
				reason = append(reason, t)
			}
		case strings.HasPrefix(t, "github.com/robertkrimen/otto") && len(frames) < 12:
			if i := strings.LastIndex(t, "("); i > 0 {
				t = t[:i]
			}
			t = strings.TrimPrefix(t, "github.com/robertkrimen/otto")
			if len(frames) == 0 || frames[len(frames)-1] != t {
				frames = append(frames, t)
			}
		}
	}
	if len(reason) == 0 {
		return ""
	}
	return strings.Join(reason, "; ") + " | innermost frames: " + strings.Join(frames, " < ")
}

// journal: 8 bytes at offset 0 = index of the sub-call about to run (read by the parent after a death).
type journal struct{ f *os.File }

func openJournal(path string) *journal {
	if path == "" {
		return &journal{}
	}
	f, err := os.OpenFile(path, os.O_CREATE|os.O_WRONLY, 0o644)
	if err != nil {
		return &journal{}
	}
	return &journal{f: f}
}

func (j *journal) mark(i int) {
	if j.f == nil {
		return
	}
	var b [8]byte
	binary.LittleEndian.PutUint64(b[:], uint64(i)+1)
	_, _ = j.f.WriteAt(b[:], 0)
}

func (j *journal) close() {
	if j.f != nil {
		j.f.Close()
	}
}

func readJournal(path string) int {
	b, err := os.ReadFile(path)
	if err != nil || len(b) < 8 {
		return -1
	}
	return int(binary.LittleEndian.Uint64(b[:8])) - 1
}

// guard runs one public-API call; a Go panic that crosses it is returned as text. The harness's own
// poll-budget sentinel is the one allowed panic ("deliberately raised by a host interrupt function").
func guard(fn func()) (panicked bool, budget bool, text string) {
	defer func() {
		if p := recover(); p != nil {
			if _, ok := p.(harness.BudgetSentinel); ok {
				budget = true
				return
			}
			panicked = true
			text = describePanic(p)
		}
	}()
	fn()
	return
}

func describePanic(p interface{}) string {
	s := fmt.Sprintf("%T: %v", p, p)
	if len(s) > 300 {
		s = s[:300] + "…"
	}
	// where it came from: first otto frame of the stack
	st := string(debug.Stack())
	for _, line := range strings.Split(st, "\n") {
		line = strings.TrimSpace(line)
		if strings.HasPrefix(line, "github.com/robertkrimen/otto") && !strings.Contains(line, "catchPanic") && !strings.Contains(line, "tryCatchEvaluate") {
			if i := strings.LastIndex(line, "("); i > 0 {
				line = line[:i]
			}
			s += " @ " + strings.TrimPrefix(line, "github.com/robertkrimen/otto")
			break
		}
	}
	return s
}

// newVM is the runtime every hostile case gets: a stack depth limit (the statement's premise for
// recursion) and a self re-arming poll budget (long-running valid code ends with the sentinel).
func newVM(limit int, polls int64) *otto.Otto {
	vm := otto.New()
	vm.SetStackDepthLimit(limit)
	harness.Arm(vm, polls)
	return vm
}

// ---- parent side ------------------------------------------------------------------------------------

const watchdog = 40 * time.Second // against an expected < 100 ms (the machine is shared and often loaded)

type workerPool struct {
	mu   sync.Mutex
	free []*pworker
	n    int
	max  int
}

type pworker struct {
	w      *harness.Worker
	stderr string
}

var pool = &workerPool{max: 4}

func (p *workerPool) get() *pworker {
	p.mu.Lock()
	defer p.mu.Unlock()
	if n := len(p.free); n > 0 {
		w := p.free[n-1]
		p.free = p.free[:n-1]
		return w
	}
	p.n++
	path := filepath.Join(os.TempDir(), fmt.Sprintf("c02-stderr-%d-%d", os.Getpid(), p.n))
	return &pworker{w: harness.NewWorker("c02", "C02_STDERR="+path), stderr: path}
}

func (p *workerPool) put(w *pworker) {
	p.mu.Lock()
	defer p.mu.Unlock()
	p.free = append(p.free, w)
}

func activeKnownList() []string {
	var out []string
	for _, id := range allFindingIDs {
		if harness.Known(id) {
			out = append(out, id)
		}
	}
	return out
}

// dispatch sends one job. fatal != "" when the worker died or stopped answering; per DESIGN §2.3 a
// timeout is confirmed once in a fresh process before it counts, a death with a Go crash report
// counts at once (and is re-run for the record), a death without any report (killed from outside)
// must happen twice.
func dispatch(j job) (res jobResult, fatal string) { return dispatchWithin(j, watchdog) }

// dispatchWithin: like dispatch with an explicit watchdog (large source texts legitimately take
// seconds — otto's parser is super-linear in the number of syntax errors — and the machine is shared).
func dispatchWithin(j job, watchdog time.Duration) (res jobResult, fatal string) {
	j.Known = activeKnownList()
	w := pool.get()
	defer pool.put(w)
	var first string
	for attempt := 0; attempt < 3; attempt++ {
		_ = os.Truncate(w.stderr, 0)
		resp, st, detail := w.w.Do(j, watchdog)
		if st != harness.WorkerOK {
			if h := crashHead(w.stderr); h != "" {
				detail = h
			}
		}
		switch st {
		case harness.WorkerOK:
			if err := json.Unmarshal(resp, &res); err != nil {
				return res, "worker answered with undecodable JSON: " + err.Error()
			}
			if first != "" && attempt == 1 && strings.HasPrefix(first, "died:") {
				// died once, returned once: a third run decides between "intermittent crash" and a
				// one-off failure of the environment (seen once: Go runtime "found pointer to free object")
				continue
			}
			if first != "" {
				fmt.Printf("note: an attempt of a %s case failed and was not confirmed by two re-runs: %s\n", j.Kind, oneLine(first, 300))
				res.Classes = append(res.Classes, "unconfirmed-worker-failure")
			}
			return res, ""
		case harness.WorkerDied:
			d := "died: " + detail
			if first != "" {
				return res, fmt.Sprintf("worker process died (in %d of %d runs of this case): %s", 2, attempt+1, d)
			}
			first = d
		case harness.WorkerTimeout:
			d := "timeout: " + detail
			if first != "" && strings.HasPrefix(first, "timeout:") {
				return res, fmt.Sprintf("worker stopped answering twice (watchdog %v each, no polling point reached or native code does not return): %s", watchdog, d)
			}
			if first != "" {
				return res, "worker died, then stopped answering: " + first + " / " + d
			}
			first = d
		}
	}
	return res, first
}

func jsonUnmarshal(b []byte, v interface{}) error { return json.Unmarshal(b, v) }

func oneLine(s string, max int) string {
	s = strings.ReplaceAll(s, "\n", "\\n")
	if len(s) > max {
		s = s[:max] + "…"
	}
	return s
}
