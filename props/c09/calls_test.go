package c09

import (
	"fmt"
	"math"
	"strings"
	"testing"

	"github.com/robertkrimen/otto"
	"pgregory.net/rapid"

	"verif/lib/es5"
	"verif/lib/gen"
	"verif/lib/harness"
	"verif/lib/m09"
)

// callCase is one call of a String.prototype method.
//
// Via: direct  (recv).m(args)                      receivers that inherit from String.prototype
//
//	call    String.prototype.m.call(recv, args)
//	apply   String.prototype.m.apply(recv, [args])
//	prop    the method installed as an own property of an object receiver, then o.m(args)
//	comma   (0, String.prototype.m)(args)           this = undefined (11.2.3 step 7.b)
//	varcall var f = String.prototype.m; f(args)     this = undefined (10.2.1.1.6 ImplicitThisValue)
type callCase struct {
	Method string `json:"method"`
	Via    string `json:"via"`
	Recv   val    `json:"recv"`
	Args   []val  `json:"args"`
}

func (c callCase) render() string {
	parts := make([]string, len(c.Args))
	for i, a := range c.Args {
		parts[i] = a.render(fmt.Sprint(i))
	}
	args := strings.Join(parts, ",")
	f := "String.prototype." + c.Method
	recv := c.Recv.render("r")
	switch c.Via {
	case "direct":
		return "(" + recv + ")." + c.Method + "(" + args + ")"
	case "call":
		if args == "" {
			return f + ".call(" + recv + ")"
		}
		return f + ".call(" + recv + "," + args + ")"
	case "apply":
		return f + ".apply(" + recv + ",[" + args + "])"
	case "prop":
		return "(function(o){o.__m=" + f + ";return o.__m(" + args + ")})(" + recv + ")"
	case "comma":
		return "(0," + f + ")(" + args + ")"
	case "varcall":
		return "(function(){var f=" + f + ";return f(" + args + ")})()"
	}
	panic("via " + c.Via)
}

// expect is what ES5.1 demands of the call.
type expect struct {
	discard string // not decided by this check (reason)
	throw   string // error class, "" = normal completion
	log     []string
	kind    string // string | number | array | cmp
	str     []uint16
	num     float64
	arr     [][]uint16

	// what the conversions produced (for class labels and exclusion classes)
	s     []uint16 // ToString(this), when reached
	haveS bool
	that  []uint16   // localeCompare argument
	nums  [3]float64 // ToNumber of the position-like arguments, by argument index
	given [3]bool    // the argument was present and not undefined
	lim   uint32
}

func argAt(c callCase, i int) val {
	if i < len(c.Args) {
		return c.Args[i]
	}
	return vUndef()
}

func model(c callCase) (e expect) {
	cv := &conv{}
	defer func() {
		e.log = cv.log
		if p := recover(); p != nil {
			jt, ok := p.(jsThrow)
			if !ok {
				panic(p)
			}
			e.throw = jt.name
		}
	}()
	for i := range e.nums {
		e.nums[i] = math.NaN()
	}
	nullish := c.Recv.K == "undef" || c.Recv.K == "null"
	if c.Method == "substr" {
		if nullish {
			// B.2.3 step 1 is a bare ToString(this) (no CheckObjectCoercible), while the property statement
			// says the methods reject undefined and null: the two disagree, so the case is not judged.
			e.discard = "substr on undefined/null: ES5.1 B.2.3 and the property statement disagree"
			return e
		}
	} else if nullish {
		e.throw = "TypeError" // CheckObjectCoercible (9.10) is step 1: nothing has been converted yet
		return e
	}
	s := cv.toString(c.Recv, "r")
	e.s, e.haveS = s, true
	num := func(i int) float64 {
		a := argAt(c, i)
		e.given[i] = a.K != "undef"
		e.nums[i] = cv.toNumber(a, fmt.Sprint(i))
		return e.nums[i]
	}
	// numUnlessUndef: clauses of the form "if x is undefined, let … else ToInteger(x)".
	numUnlessUndef := func(i int) (float64, bool) {
		a := argAt(c, i)
		if a.K == "undef" {
			return math.NaN(), true
		}
		return num(i), false
	}
	switch c.Method {
	case "charAt":
		e.kind, e.str = "string", m09.CharAt(s, num(0))
	case "charCodeAt":
		e.kind, e.num = "number", m09.CharCodeAt(s, num(0))
	case "concat":
		var rest [][]uint16
		for i, a := range c.Args {
			rest = append(rest, cv.toString(a, fmt.Sprint(i)))
		}
		e.kind, e.str = "string", m09.Concat(s, rest...)
	case "indexOf":
		search := cv.toString(argAt(c, 0), "0")
		e.kind, e.num = "number", float64(m09.IndexOf(s, search, num(1)))
	case "lastIndexOf":
		search := cv.toString(argAt(c, 0), "0")
		e.kind, e.num = "number", float64(m09.LastIndexOf(s, search, num(1)))
	case "localeCompare":
		e.that = cv.toString(argAt(c, 0), "0")
		e.kind = "cmp"
	case "slice":
		st := num(0)
		en, undef := numUnlessUndef(1)
		e.kind, e.str = "string", m09.Slice(s, st, en, undef)
	case "substring":
		st := num(0)
		en, undef := numUnlessUndef(1)
		e.kind, e.str = "string", m09.Substring(s, st, en, undef)
	case "substr":
		st := num(0)
		ln, undef := numUnlessUndef(1)
		e.kind, e.str = "string", m09.Substr(s, st, ln, undef)
	case "split":
		// step 5 (limit) precedes step 8 (ToString(separator)); both precede the lim = 0 exit of step 9
		l, lundef := numUnlessUndef(1)
		e.lim = m09.Limit(l, lundef)
		sep := argAt(c, 0)
		var r []uint16
		if sep.K != "undef" {
			r = cv.toString(sep, "0")
		}
		e.kind, e.arr = "array", m09.Split(s, r, sep.K == "undef", e.lim)
	case "toLowerCase":
		out, verdict := m09.ToLower(s)
		if verdict != m09.CaseOK {
			e.discard = verdict
			return e
		}
		e.kind, e.str = "string", out
	case "toUpperCase":
		out, verdict := m09.ToUpper(s)
		if verdict != m09.CaseOK {
			e.discard = verdict
			return e
		}
		e.kind, e.str = "string", out
	case "trim":
		e.kind, e.str = "string", m09.Trim(s)
	default:
		panic("method " + c.Method)
	}
	return e
}

// runeView runs an extraction over code points instead of code units (the documented distortion of
// finding C09-ASTRAL-RUNES) — only to delimit that finding's exclusion class, never as an oracle.
func runeView(s []uint16, f func(proxy []uint16) []uint16) []uint16 {
	var runes [][]uint16
	for i := 0; i < len(s); i++ {
		if s[i] >= 0xD800 && s[i] < 0xDC00 && i+1 < len(s) && s[i+1] >= 0xDC00 && s[i+1] < 0xE000 {
			runes = append(runes, []uint16{s[i], s[i+1]})
			i++
		} else {
			runes = append(runes, []uint16{s[i]})
		}
	}
	proxy := make([]uint16, len(runes))
	for i := range proxy {
		proxy[i] = uint16(i)
	}
	var out []uint16
	for _, k := range f(proxy) {
		out = append(out, runes[k]...)
	}
	return out
}

// knownClass names the known finding (if any, and only while it still reproduces) whose exclusion
// class contains the case; skip = the case is not evaluated at all.
func knownClass(c callCase, e expect) (id string, skip bool) {
	if c.Recv.K == "undef" && c.Via != "comma" && known(kThisUndef) {
		return kThisUndef, true
	}
	if (c.Method == "charAt" || c.Method == "charCodeAt") && c.Recv.K != "null" && c.Recv.K != "undef" && known(kCharAtRecv) {
		// only a String object, or a primitive string that the member call itself wrapped, carries the
		// [[PrimitiveValue]] the defective code reads; everything else is a nil dereference
		if !(c.Recv.K == "sobj" || (c.Recv.K == "str" && c.Via == "direct")) {
			return kCharAtRecv, true
		}
	}
	if !e.haveS {
		return "", false
	}
	s := e.s
	switch c.Method {
	case "charAt", "charCodeAt":
		if e.throw == "" {
			p := es5.ToInteger(e.nums[0])
			if p >= 0 && p < float64(len(s)) && s[int(p)] == 0xFFFD && known(kFFFD) {
				return kFFFD, true
			}
		}
	case "indexOf":
		if e.throw == "" && len(c.Args) >= 2 && !gen.AllASCII(s) && es5.ToInteger(e.nums[1]) > 0 && known(kIndexBytes) {
			return kIndexBytes, true
		}
	case "lastIndexOf":
		if len(c.Args) >= 2 && c.Args[1].K != "undef" && len(s) == 0 && c.Args[1].logs() && known(kLastPos) {
			return kLastPos, true // empty receiver: the position is never converted (its valueOf is not called, its exception lost)
		}
		if e.throw == "" && len(c.Args) >= 2 && e.given[1] && len(s) > 0 {
			p := e.nums[1]
			if (math.IsNaN(p) || math.IsInf(p, -1) || (p >= 9.2e18 && !math.IsInf(p, 1))) && known(kLastPos) {
				return kLastPos, true
			}
			if !gen.AllASCII(s) && es5.ToInteger(p) > 0 && !math.IsInf(p, 1) && known(kIndexBytes) {
				return kIndexBytes, true
			}
		}
	case "slice", "substring", "substr":
		if e.throw != "" {
			return "", false
		}
		if c.Method == "substr" && e.given[1] && es5.ToInteger(e.nums[1]) >= 9223372036854775807 && known(kSubstrOver) {
			st := es5.ToInteger(e.nums[0])
			if st > 0 || (st < 0 && float64(len(s))+st > 0) {
				return kSubstrOver, true
			}
		}
		if hasAstral(s) && known(kAstralRunes) {
			endUndef := !e.given[1]
			byRunes := runeView(s, func(p []uint16) []uint16 {
				switch c.Method {
				case "slice":
					return m09.Slice(p, e.nums[0], e.nums[1], endUndef)
				case "substring":
					return m09.Substring(p, e.nums[0], e.nums[1], endUndef)
				}
				return m09.Substr(p, e.nums[0], e.nums[1], endUndef)
			})
			if !m09.Equal(byRunes, e.str) {
				return kAstralRunes, true
			}
		}
	case "split":
		if e.lim == 0 && len(c.Args) >= 1 && c.Args[0].logs() && known(kSplitLim0) {
			return kSplitLim0, true
		}
	}
	return "", false
}

// observed is what the implementation did, decoded into plain Go values.
type observed struct {
	bad    string // panic / API error: nothing else is meaningful
	err    string // "none" or the error class caught in JS
	log    string
	typ    string     // string | number | array | other
	repr   string     // typed rendering of the result (messages)
	str    []uint16   // typ string
	jslen  int        // .length of the result as seen from JS when it is a string, else -1
	num    float64    // typ number
	arr    [][]uint16 // typ array: the elements (all must be strings)
	arrN   int        // typ array: its length property
	arrBad string     // typ array: an element that is not a string
}

// evalCall evaluates a call expression under the try/catch + trace wrapper. (A variable so that the
// development-time cross-check of the model can route the same expressions to another engine.)
var evalCall = runCall

func runCall(expr string) observed {
	js := `__log=[];var __r,__e="none";try{__r=(` + expr + `)}catch(e){__e=(e instanceof Error)?e.name:"non-error:"+e;__r=0} [__e,__log.join(","),__r,(typeof __r=="string")?__r.length:-1]`
	r := harness.Run(getVM(), js)
	if r.Panicked {
		dropVM()
		return observed{bad: "Go panic out of Run: " + fmt.Sprint(r.Panic)}
	}
	if r.Err != nil {
		return observed{bad: "error out of Run: " + r.Err.Error()}
	}
	o := r.Value.Object()
	if o == nil {
		return observed{bad: "harness: result is not an array"}
	}
	g := observed{typ: "other"}
	ev, _ := o.Get("0")
	lv, _ := o.Get("1")
	v, _ := o.Get("2")
	nv, _ := o.Get("3")
	g.err, g.log = ev.String(), lv.String()
	n, _ := nv.ToInteger()
	g.jslen = int(n)
	g.repr = harness.Repr(v)
	switch {
	case v.IsString():
		g.typ = "string"
		g.str, _ = units(v)
	case v.IsNumber():
		g.typ = "number"
		g.num, _ = v.ToFloat()
	case v.IsObject() && v.Object().Class() == "Array":
		g.typ = "array"
		ao := v.Object()
		lv, _ := ao.Get("length")
		n, _ := lv.ToInteger()
		g.arrN = int(n)
		for i := 0; i < g.arrN && i < 64; i++ {
			el, _ := ao.Get(fmt.Sprint(i))
			u, ok := units(el)
			if !ok {
				g.arrBad = fmt.Sprintf("element %d is %s, not a string", i, harness.Repr(el))
				break
			}
			g.arr = append(g.arr, u)
		}
	}
	return g
}

func units(v otto.Value) ([]uint16, bool) {
	if !v.IsString() {
		return nil, false
	}
	s, err := v.ToString()
	if err != nil {
		return nil, false
	}
	return harness.UTF16(s), true
}

// loneKnown: the representation-limit finding is active (the cross-check switches it off).
var loneKnown = func() bool { return known(kLone) }

// compareLiterals evaluates a.localeCompare(b) on two string literals (the metamorphic reference).
var compareLiterals = func(a, b []uint16) (float64, string) {
	ref := harness.Run(getVM(), show16(a)+".localeCompare("+show16(b)+")")
	if ref.Panicked || ref.Err != nil || !ref.Value.IsNumber() {
		return 0, "reference comparison on literals failed: " + ref.Describe()
	}
	rf, _ := ref.Value.ToFloat()
	return rf, ""
}

func sign(x float64) int {
	switch {
	case x < 0:
		return -1
	case x > 0:
		return 1
	}
	return 0
}

// judge compares observation and expectation; excl receives the representation-limit finding when
// the comparison had to be reduced to lengths.
func judge(c callCase, e expect, g observed, excl *[]string) string {
	if g.bad != "" {
		return g.bad
	}
	wantLog := fmtLog(e.log)
	if e.throw != "" {
		if g.err != e.throw {
			return fmt.Sprintf("must throw %s, got %s (result %s)", e.throw, g.err, g.repr)
		}
		if g.log != wantLog {
			return fmt.Sprintf("conversions before the %s: [%s], ES5 order gives [%s]", e.throw, g.log, wantLog)
		}
		return ""
	}
	if g.err != "none" {
		return fmt.Sprintf("threw %s, ES5 gives a normal result", g.err)
	}
	if g.log != wantLog {
		return fmt.Sprintf("conversion trace [%s], ES5 steps give [%s] (each operand converted once, in order, with the right hint)", g.log, wantLog)
	}
	switch e.kind {
	case "string":
		if g.typ != "string" {
			return fmt.Sprintf("result %s is not a primitive string, want %s", g.repr, show16(e.str))
		}
		if m09.HasLoneSurrogate(e.str) && loneKnown() {
			*excl = append(*excl, kLone)
			if g.jslen != len(e.str) {
				return fmt.Sprintf("result has length %d, want %d (%s; compared by length only: lone surrogate)", g.jslen, len(e.str), show16(e.str))
			}
			return ""
		}
		if !m09.Equal(g.str, e.str) || g.jslen != len(e.str) {
			return fmt.Sprintf("= %s (length %d), want %s (length %d)", show16(g.str), g.jslen, show16(e.str), len(e.str))
		}
	case "number":
		if g.typ != "number" {
			return fmt.Sprintf("result %s is not a number, want %s", g.repr, harness.NumRepr(e.num))
		}
		if !harness.SameNum(g.num, e.num) {
			return fmt.Sprintf("= %s, want %s", harness.NumRepr(g.num), harness.NumRepr(e.num))
		}
	case "array":
		if g.typ != "array" {
			return fmt.Sprintf("result %s is not an Array", g.repr)
		}
		for _, el := range e.arr {
			if m09.HasLoneSurrogate(el) && loneKnown() {
				*excl = append(*excl, kLone)
				return ""
			}
		}
		if g.arrBad != "" {
			return g.arrBad
		}
		same := g.arrN == len(e.arr) && len(g.arr) == len(e.arr)
		for i := 0; same && i < len(e.arr); i++ {
			same = m09.Equal(g.arr[i], e.arr[i])
		}
		if !same {
			return fmt.Sprintf("= %s (length %d), want %s", showArr(g.arr), g.arrN, showArr(e.arr))
		}
	case "cmp":
		if g.typ != "number" {
			return fmt.Sprintf("result %s is not a number", g.repr)
		}
		f := g.num
		if math.IsNaN(f) {
			return "localeCompare returned NaN"
		}
		if (f == 0) != m09.Equal(e.s, e.that) {
			return fmt.Sprintf("= %v for this=%s that=%s: zero exactly when the strings are equal", f, show16(e.s), show16(e.that))
		}
		// metamorphic: the same comparison on the already converted strings
		rf, bad := compareLiterals(e.s, e.that)
		if bad != "" {
			return bad
		}
		if sign(rf) != sign(f) {
			return fmt.Sprintf("= %v but %s.localeCompare(%s) = %v: conversion of this/that changed the order", f, show16(e.s), show16(e.that), rf)
		}
	}
	return ""
}

func showArr(a [][]uint16) string {
	p := make([]string, len(a))
	for i, u := range a {
		p[i] = show16(u)
	}
	return "[" + strings.Join(p, ",") + "]"
}

func posClass(x float64, n int) string {
	switch {
	case math.IsNaN(x):
		return "pos:NaN"
	case math.IsInf(x, 0):
		return "pos:infinite"
	case math.Abs(x) >= 2147483648:
		return "pos:>=2^31"
	case x != math.Trunc(x):
		return "pos:fraction"
	case x < 0 || (x == 0 && math.Signbit(x)):
		return "pos:negative"
	case x >= float64(n):
		return "pos:>=length"
	}
	return "pos:in-range"
}

var positional = map[string][]int{"charAt": {0}, "charCodeAt": {0}, "indexOf": {1}, "lastIndexOf": {1}, "slice": {0, 1}, "substring": {0, 1}, "substr": {0, 1}, "split": {1}}

func checkCall(c callCase) harness.Outcome {
	e := model(c)
	o := harness.Outcome{Classes: []string{"method:" + c.Method, "recv-kind:" + c.Recv.K, "via:" + c.Via}}
	if e.discard != "" {
		o.Discard = e.discard
		return o
	}
	// non-trivial: non-ASCII string, or a position argument that is not an in-range non-negative
	// integer literal, or a receiver that is not a primitive string
	o.Nontrivial = c.Recv.K != "str" || !gen.AllASCII(e.s)
	for _, i := range positional[c.Method] {
		if i < len(c.Args) {
			o.Classes = append(o.Classes, "arg-kind:"+c.Args[i].K)
			if !plainPos(c.Args[i], len(e.s)) {
				o.Nontrivial = true
			}
			if e.throw == "" && c.Args[i].K != "undef" {
				o.Classes = append(o.Classes, posClass(e.nums[i], len(e.s)))
			}
		} else {
			o.Classes = append(o.Classes, "arg-kind:omitted")
			o.Nontrivial = true
		}
	}
	if e.haveS {
		o.Classes = append(o.Classes, alphabetClasses(e.s)...)
	}
	if e.throw != "" {
		o.Classes = append(o.Classes, "expect-throw:"+e.throw)
	}
	if e.kind == "string" && e.throw == "" && m09.HasLoneSurrogate(e.str) {
		o.Classes = append(o.Classes, "result:lone-surrogate")
	}
	if id, skip := knownClass(c, e); id != "" {
		o.Excluded = append(o.Excluded, id)
		if skip {
			return o
		}
	}
	expr := c.render()
	g := evalCall(expr)
	if msg := judge(c, e, g, &o.Excluded); msg != "" {
		o.Fail = expr + ": " + msg + " (ES5.1 " + clause[c.Method] + ")"
	}
	return o
}

var clause = map[string]string{"charAt": "15.5.4.4", "charCodeAt": "15.5.4.5", "concat": "15.5.4.6", "indexOf": "15.5.4.7", "lastIndexOf": "15.5.4.8",
	"localeCompare": "15.5.4.9", "slice": "15.5.4.13", "split": "15.5.4.14", "substring": "15.5.4.15", "toLowerCase": "15.5.4.16", "toUpperCase": "15.5.4.18",
	"trim": "15.5.4.20", "substr": "B.2.3"}

// ---- generation -------------------------------------------------------------------------------------

// recvString is ToString(recv) as the generator needs it ("" when the conversion throws).
func recvString(r val) (s []uint16) {
	defer func() {
		if p := recover(); p != nil {
			s = nil
		}
	}()
	if r.K == "undef" || r.K == "null" {
		return nil
	}
	return (&conv{}).toString(r, "r")
}

func genVia(t *rapid.T, r val) string {
	switch r.K {
	case "undef":
		return rapid.SampledFrom([]string{"call", "apply", "comma", "varcall"}).Draw(t, "via")
	case "str", "sobj", "sobjts":
		return rapid.SampledFrom([]string{"direct", "direct", "call", "apply"}).Draw(t, "via")
	case "ots", "ovo", "ofall", "othrow", "obad", "arr":
		return rapid.SampledFrom([]string{"call", "apply", "prop"}).Draw(t, "via")
	}
	return rapid.SampledFrom([]string{"call", "apply"}).Draw(t, "via")
}

func genSub(t *rapid.T, s []uint16, maxLen int, label string) []uint16 {
	if len(s) == 0 {
		return []uint16{}
	}
	i := rapid.IntRange(0, len(s)).Draw(t, label+"-i")
	n := rapid.IntRange(0, maxLen).Draw(t, label+"-n")
	j := i + n
	if j > len(s) {
		j = len(s)
	}
	// keep surrogate pairs whole: the separator / search string itself must be well formed
	if i < len(s) && i > 0 && s[i] >= 0xDC00 && s[i] < 0xE000 {
		i--
	}
	if j < len(s) && j > i && s[j] >= 0xDC00 && s[j] < 0xE000 && s[j-1] >= 0xD800 && s[j-1] < 0xDC00 {
		j++
	}
	return append([]uint16{}, s[i:j]...)
}

func maybeJunk(t *rapid.T, c *callCase, arity int) {
	// an argument beyond the method's parameters must not be converted at all
	if len(c.Args) == arity && rapid.IntRange(0, 11).Draw(t, "junk") == 0 {
		c.Args = append(c.Args, rapid.SampledFrom([]val{{K: "othrow"}, {K: "ovo", N: "1", U: asc("x")}, {K: "obad"}, vNum(1)}).Draw(t, "junkv"))
	}
}

// genCallCommon draws method, receiver and call form. One case in six is an "image" case: the
// receiver's string contains the ToString image of an odd argument value (returned as img), which
// the facets then pass explicitly in the string-role position.
func genCallCommon(t *rapid.T, methods []string, maxLen int) (c callCase, s []uint16, img *val) {
	c = callCase{Method: rapid.SampledFrom(methods).Draw(t, "method"), Args: []val{}}
	var base []uint16
	if rapid.IntRange(0, 5).Draw(t, "image") == 0 {
		b, v := genImageString(t)
		base, img = b, &v
	} else {
		base = genUnits(maxLen).Draw(t, "s")
	}
	c.Recv = genRecv(t, base)
	c.Via = genVia(t, c.Recv)
	return c, recvString(c.Recv), img
}

// padUndefined passes `undefined` explicitly at optional positions that were left out (one case in
// eight): ES5 treats an explicit undefined like an omitted argument almost everywhere, and never as
// the text "undefined" where the clause says "if x is undefined".
func padUndefined(t *rapid.T, c *callCase, arity int) {
	if len(c.Args) < arity && rapid.IntRange(0, 7).Draw(t, "pad-undef") == 0 {
		n := rapid.IntRange(len(c.Args)+1, arity).Draw(t, "pad-to")
		for len(c.Args) < n {
			c.Args = append(c.Args, vUndef())
		}
	}
}

var accessFacet = harness.Register(&harness.Facet[callCase]{
	Name:     "charAt-charCodeAt",
	Rule:     "rapid: charAt/charCodeAt; receiver string ≤12 units over ASCII/Latin-1/BMP/astral alphabets (one third over a 6-letter alphabet; one case in six an image receiver: a string containing the ToString image \"undefined\", \"null\", \"NaN\", \"0\", \"[object Object]\", \"true\", \"1,2\"… of an odd argument value, that value then passed explicitly in the string-role position; one case in eight passes undefined explicitly at the optional positions left out), wrapped as primitive, String object (plain or with own toString), number, boolean, array, objects with logging toString/valueOf (incl. throwing and non-primitive-returning ones), undefined, null; called directly, through call/apply, as an installed property, or with this=undefined; 0–1 position arguments from the odd pool (±(length±1), fractions, NaN, ±Infinity, -0, 2^31, 2^32, 2^53, 2^63, 1e300, undefined, null, booleans, numeric strings, objects with valueOf/toString, arrays) plus an occasional surplus argument that must not be converted; oracle: lib/m09 (15.5.4.4-5) on code units, conversion trace and exception class; non-trivial = non-ASCII string, or position not an in-range non-negative integer literal, or receiver not a primitive string; distinct by (method, via, receiver, arguments)",
	Quick:    12000,
	Thorough: 40000,
	Gen: func(t *rapid.T) callCase {
		c, s, _ := genCallCommon(t, []string{"charAt", "charCodeAt"}, 12)
		if known(kCharAtRecv) && !(c.Recv.K == "sobj" || (c.Recv.K == "str" && c.Via == "direct")) && c.Recv.K != "null" && c.Recv.K != "undef" &&
			rapid.IntRange(0, 9).Draw(t, "steer") < 8 {
			// while finding C09-CHARAT-RECEIVER stands every other receiver is a crash: keep most of the
			// budget on receivers that can be evaluated (the class is still sampled and counted)
			if c.Recv.K != "str" {
				c.Recv = vStr(s)
			}
			c.Via = "direct"
		}
		if rapid.IntRange(0, 9).Draw(t, "nargs") > 0 {
			c.Args = append(c.Args, genPos(t, len(s), "pos"))
		}
		padUndefined(t, &c, 1)
		maybeJunk(t, &c, 1)
		return c
	},
	Check: checkCall,
})

func TestCharAccess(t *testing.T) { accessFacet.Run(t) }

var searchFacet = harness.Register(&harness.Facet[callCase]{
	Name:     "indexOf-lastIndexOf",
	Rule:     "rapid: indexOf/lastIndexOf; receivers as in charAt-charCodeAt; search string = a substring of the receiver's string value (so that matches exist, also repeated ones over the small alphabet), the empty string, the whole string plus one unit, a random string, or omitted, wrapped in any value kind; position omitted or from the odd pool; oracle: lib/m09 (15.5.4.7-8: ToInteger, NaN → +∞ for lastIndexOf, clamping) in code units, conversion trace; non-trivial as in charAt-charCodeAt; distinct by (method, via, receiver, arguments)",
	Quick:    18000,
	Thorough: 55000,
	Gen: func(t *rapid.T) callCase {
		c, s, img := genCallCommon(t, []string{"indexOf", "lastIndexOf"}, 12)
		if rapid.IntRange(0, 19).Draw(t, "noargs") == 0 {
			padUndefined(t, &c, 2)
			return c
		}
		if img != nil && rapid.IntRange(0, 3).Draw(t, "use-image") > 0 {
			c.Args = append(c.Args, *img)
			if rapid.Bool().Draw(t, "image-pos") {
				c.Args = append(c.Args, genPos(t, len(s), "pos"))
			}
			padUndefined(t, &c, 2)
			maybeJunk(t, &c, 2)
			return c
		}
		var search []uint16
		switch k := rapid.IntRange(0, 9).Draw(t, "searchkind"); {
		case k < 5:
			search = genSub(t, s, 3, "sub")
		case k == 5:
			search = []uint16{}
		case k == 6:
			search = append(append([]uint16{}, s...), 'x')
		case k == 7:
			search = append([]uint16{}, s...)
		default:
			search = genUnits(3).Draw(t, "rnd")
		}
		c.Args = append(c.Args, genStringy(t, search, "search"))
		if rapid.IntRange(0, 9).Draw(t, "withpos") < 7 {
			c.Args = append(c.Args, genPos(t, len(s), "pos"))
		}
		padUndefined(t, &c, 2)
		maybeJunk(t, &c, 2)
		return c
	},
	Check: checkCall,
})

func TestSearch(t *testing.T) { searchFacet.Run(t) }

var extractFacet = harness.Register(&harness.Facet[callCase]{
	Name:     "slice-substring-substr",
	Rule:     "rapid: slice/substring/substr; receivers as in charAt-charCodeAt; 0–2 arguments from the odd pool (both orders of start/end arise, negative and beyond-length values, undefined end/length, huge lengths); oracle: lib/m09 (15.5.4.13, 15.5.4.15, B.2.3) in code units, conversion trace; results holding half a surrogate pair compared by length only (representation limit, counted); non-trivial as in charAt-charCodeAt; distinct by (method, via, receiver, arguments)",
	Quick:    18000,
	Thorough: 55000,
	Gen: func(t *rapid.T) callCase {
		c, s, _ := genCallCommon(t, []string{"slice", "substring", "substr"}, 12)
		n := rapid.SampledFrom([]int{0, 1, 1, 2, 2, 2, 2}).Draw(t, "nargs")
		for i := 0; i < n; i++ {
			c.Args = append(c.Args, genPos(t, len(s), fmt.Sprintf("p%d", i)))
		}
		padUndefined(t, &c, 2)
		maybeJunk(t, &c, 2)
		return c
	},
	Check: checkCall,
})

func TestExtract(t *testing.T) { extractFacet.Run(t) }

func genLimit(t *rapid.T, n int) val {
	v := genPos(t, n, "limit")
	if v.K == "num" || v.K == "ovo" {
		x := parseLit(v.N)
		if rapid.IntRange(0, 2).Draw(t, "limit-small") == 0 {
			x = float64(rapid.SampledFrom([]int{0, 1, 2, 3, n, n + 1}).Draw(t, "limit-v"))
		}
		if !math.IsInf(x, 0) && math.Abs(x) >= 9.2e18 {
			// ToUint32 of |x| >= 2^63 belongs to C05 (appendix A22): keep it out of this domain
			x = 4294967297
		}
		v.N = harness.NumLit(x)
	}
	return v
}

var splitFacet = harness.Register(&harness.Facet[callCase]{
	Name:     "split-concat",
	Rule:     "rapid: split with a separator that is not a RegExp (a 0–2 unit substring of the receiver, the whole receiver, a random unit, omitted or undefined; wrapped in any value kind incl. number/null/array/object with toString) and a limit omitted or from the odd pool (0, small, ≥ pieces, -1, 2^32±1, fractions, NaN, ±Infinity, strings, objects; |x| ≥ 2^63 kept out: C05); concat with 0–4 arguments of any kind; oracle: lib/m09 (15.5.4.14 SplitMatcher loop with ToUint32 limit; 15.5.4.6), result must be an Array of primitive strings compared element-wise in code units, conversion trace (limit before separator); non-trivial as in charAt-charCodeAt, limit playing the position role; distinct by (method, via, receiver, arguments)",
	Quick:    18000,
	Thorough: 55000,
	Gen: func(t *rapid.T) callCase {
		c, s, img := genCallCommon(t, []string{"split", "split", "split", "concat"}, 12)
		if c.Method == "concat" {
			n := rapid.IntRange(0, 4).Draw(t, "nargs")
			for i := 0; i < n; i++ {
				if img != nil && rapid.IntRange(0, 2).Draw(t, "concat-image") == 0 {
					c.Args = append(c.Args, rapid.SampledFrom(imageVals).Draw(t, "concat-image-val"))
					continue
				}
				c.Args = append(c.Args, genStringy(t, nil, fmt.Sprintf("c%d", i)))
			}
			return c
		}
		if rapid.IntRange(0, 11).Draw(t, "nosep") == 0 {
			padUndefined(t, &c, 2)
			return c
		}
		if img != nil && rapid.IntRange(0, 3).Draw(t, "use-image") > 0 {
			// the separator is the very value whose text the receiver contains (explicit undefined included)
			c.Args = append(c.Args, *img)
			if rapid.Bool().Draw(t, "withlimit") {
				c.Args = append(c.Args, genLimit(t, len(s)))
			}
			padUndefined(t, &c, 2)
			maybeJunk(t, &c, 2)
			return c
		}
		var sep []uint16
		switch k := rapid.IntRange(0, 9).Draw(t, "sepkind"); {
		case k < 6:
			sep = genSub(t, s, 2, "sep")
		case k == 6:
			sep = []uint16{}
		case k == 7:
			sep = append([]uint16{}, s...)
		default:
			sep = genUnits(1).Draw(t, "rndsep")
		}
		c.Args = append(c.Args, genStringy(t, sep, "sep"))
		if rapid.Bool().Draw(t, "withlimit") {
			c.Args = append(c.Args, genLimit(t, len(s)))
		}
		padUndefined(t, &c, 2)
		maybeJunk(t, &c, 2)
		return c
	},
	Check: checkCall,
})

func TestSplitConcat(t *testing.T) { splitFacet.Run(t) }

var caseTrimFacet = harness.Register(&harness.Facet[callCase]{
	Name:     "case-trim-compare-receivers",
	Rule:     "rapid: toLowerCase/toUpperCase/trim/localeCompare on every receiver kind (strings over the four shared alphabets, sometimes padded with ES5 white space), surplus arguments must stay unconverted; oracle: lib/m09 simple case mapping table (cases needing a full or version-dependent mapping are discarded and counted), 15.5.4.20 trim; localeCompare: a number, zero exactly for equal strings, same sign as the comparison of the converted strings written as literals; non-trivial = non-ASCII string or receiver not a primitive string; distinct by (method, via, receiver, arguments)",
	Quick:    10000,
	Thorough: 30000,
	Gen: func(t *rapid.T) callCase {
		c := callCase{Method: rapid.SampledFrom([]string{"toLowerCase", "toUpperCase", "trim", "trim", "localeCompare"}).Draw(t, "method"), Args: []val{}}
		s := genUnits(10).Draw(t, "s")
		if c.Method == "trim" {
			s = padWS(t, s)
		}
		var img *val
		if c.Method == "localeCompare" && rapid.IntRange(0, 4).Draw(t, "image") == 0 {
			// receiver = exactly the text of an odd argument value (or a string containing it): the
			// comparison with that value must be 0 (resp. non-zero); localeCompare() compares with "undefined"
			v := rapid.SampledFrom(imageVals).Draw(t, "image-val")
			img = &v
			s = (&conv{}).toString(v, "i")
			if rapid.IntRange(0, 2).Draw(t, "image-longer") == 0 {
				s = append(append([]uint16{}, s...), genUnits(2).Draw(t, "image-tail")...)
			}
		}
		c.Recv = genRecv(t, s)
		c.Via = genVia(t, c.Recv)
		if c.Method == "localeCompare" {
			if img != nil {
				if img.K != "undef" || rapid.Bool().Draw(t, "image-explicit") {
					c.Args = append(c.Args, *img)
				}
				maybeJunk(t, &c, 1)
				return c
			}
			if rapid.IntRange(0, 9).Draw(t, "nargs") > 0 {
				that := genUnits(10).Draw(t, "that")
				if rapid.IntRange(0, 3).Draw(t, "same") == 0 {
					that = recvString(c.Recv)
					if that == nil {
						that = []uint16{}
					}
				}
				c.Args = append(c.Args, genStringy(t, that, "that"))
			}
			padUndefined(t, &c, 1)
			maybeJunk(t, &c, 1)
		} else {
			maybeJunk(t, &c, 0)
		}
		return c
	},
	Check: checkCall,
})

func TestCaseTrimReceivers(t *testing.T) { caseTrimFacet.Run(t) }

func padWS(t *rapid.T, s []uint16) []uint16 {
	pad := func(label string) []uint16 {
		n := rapid.IntRange(0, 3).Draw(t, label)
		var p []uint16
		for i := 0; i < n; i++ {
			p = append(p, rapid.SampledFrom(wsUnits).Draw(t, label+"-u"))
		}
		return p
	}
	out := append(pad("lead"), s...)
	return append(out, pad("trail")...)
}
