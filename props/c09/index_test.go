package c09

import (
	"fmt"
	"sort"
	"strconv"
	"strings"
	"testing"

	"pgregory.net/rapid"

	"verif/lib/gen"
	"verif/lib/harness"
	"verif/lib/m09"
)

// indexCase: property access on a string value / String object (15.5.5, 15.5.5.1, 15.5.5.2, 8.7.1).
type indexCase struct {
	U   []uint16 `json:"u"`
	Obj bool     `json:"obj"` // s is new String(U) rather than the primitive
	Key val      `json:"key"` // str or num
}

const indexProbe = `function __idx(s,k){
var o=Object(s),r=[];
r.push(typeof s[k],s[k]);
r.push(k in o,o.hasOwnProperty(k),o.propertyIsEnumerable(k));
var d=Object.getOwnPropertyDescriptor(o,k);
r.push(d===undefined?"none":[typeof d.value,d.writable,d.enumerable,d.configurable].join("|"));
r.push(d===undefined?"":d.value);
r.push(s.length,o.length);
r.push(Object.keys(o).join(","));
r.push(Object.getOwnPropertyNames(o).join(","));
var q=new String(s);
q[k]="Z!";r.push(typeof q[k],q[k]);
r.push(delete q[k]);
r.push(typeof q[k]);
q.length=99;r.push(q.length);
return r}`

var indexKeyStrings = []string{"0", "1", "2", "3", "5", "11", "12", "13", "00", "01", "+1", "-0", "-1", "1.0", "1e0", " 1", "1 ", "0x1", "1.5", "", "x", "length", "Infinity", "NaN",
	"4294967294", "4294967295", "4294967296", "1e+21", "١"}

var indexKeyNums = []float64{0, 1, 2, 3, 11, 12, -1, 0.5, 1.5, 4294967294, 4294967295, 4294967296, 1e21, 1e-7}

func sortedJoin(s string) string {
	if s == "" {
		return ""
	}
	p := strings.Split(s, ",")
	sort.Strings(p)
	return strings.Join(p, ",")
}

func looksLikeGoInt(name []uint16) bool {
	if len(name) == 0 {
		return false
	}
	i := 0
	if name[0] == '+' || name[0] == '-' {
		i = 1
	}
	if i == len(name) {
		return false
	}
	for _, c := range name[i:] {
		if c < '0' || c > '9' {
			return false
		}
	}
	return true
}

var indexFacet = harness.Register(&harness.Facet[indexCase]{
	Name:     "indexing-length",
	Rule:     "rapid: a string ≤12 units over the four alphabets, as primitive or String object, and a property key (numbers: in range, length, beyond, negative, -0, fractions, NaN, ±Infinity, 2^32-2…2^32, 1e21; strings: canonical indices, \"01\", \"+1\", \"-0\", \"1.0\", \"1e0\", padded, hex, \"length\", other); observed per case: typeof/value of s[k], `in`, hasOwnProperty, propertyIsEnumerable, the property descriptor, s.length, Object.keys / getOwnPropertyNames (as sets), and on a fresh String object the effect of assignment, delete and length assignment; oracle: 15.5.5.1-2 ([[GetOwnProperty]] with the canonical-name test, {writable:false, enumerable:true, configurable:false}), 8.12; non-trivial = non-ASCII string or key not a canonical in-range index; distinct by (string, object?, key)",
	Quick:    9000,
	Thorough: 30000,
	Gen: func(t *rapid.T) indexCase {
		c := indexCase{U: genUnits(12).Draw(t, "s"), Obj: rapid.Bool().Draw(t, "obj")}
		n := len(c.U)
		switch k := rapid.IntRange(0, 11).Draw(t, "keykind"); {
		case k < 3:
			c.Key = vNum(float64(rapid.IntRange(0, n+1).Draw(t, "inrange")))
		case k < 5:
			c.Key = vNum(rapid.SampledFrom(append([]float64{parseLit("-0"), parseLit("NaN"), parseLit("Infinity"), parseLit("-Infinity")}, indexKeyNums...)).Draw(t, "numkey"))
		case k < 7:
			c.Key = vStr(asc(fmt.Sprint(rapid.IntRange(0, n+1).Draw(t, "strinrange"))))
		case k == 7:
			c.Key = vStr(asc("length"))
		default:
			c.Key = vStr(asc(rapid.SampledFrom(indexKeyStrings).Draw(t, "strkey")))
		}
		return c
	},
	Check: checkIndex,
})

func TestIndexing(t *testing.T) { indexFacet.Run(t) }

func checkIndex(c indexCase) harness.Outcome {
	name := (&conv{}).toString(c.Key, "k")
	n := len(c.U)
	unit, isIdx := m09.OwnIndex(c.U, name)
	isLen := string(harnessASCII(name)) == "length"
	o := harness.Outcome{Classes: []string{"key-kind:" + c.Key.K}}
	o.Classes = append(o.Classes, alphabetClasses(c.U)...)
	switch {
	case isIdx:
		o.Classes = append(o.Classes, "key:index-in-range")
	case isLen:
		o.Classes = append(o.Classes, "key:length")
	case looksLikeGoInt(name):
		o.Classes = append(o.Classes, "key:integer-like-not-own")
	default:
		o.Classes = append(o.Classes, "key:other")
	}
	if c.Obj {
		o.Classes = append(o.Classes, "String-object")
	} else {
		o.Classes = append(o.Classes, "primitive")
	}
	o.Nontrivial = !gen.AllASCII(c.U) || !isIdx || c.Key.K != "num"

	_, canonical := m09.CanonicalName(name)
	if !canonical && !isLen && looksLikeGoInt(name) && known(kIdxCanon) {
		o.Excluded = append(o.Excluded, kIdxCanon)
		return o
	}
	if isIdx && unit == 0xFFFD && known(kFFFD) {
		o.Excluded = append(o.Excluded, kFFFD)
		return o
	}
	lone := isIdx && unit >= 0xD800 && unit < 0xE000
	lengthOnly := lone && known(kLone)
	if lengthOnly {
		o.Excluded = append(o.Excluded, kLone)
	}
	modEnum := isIdx && known(kIdxEnum)
	if modEnum {
		o.Excluded = append(o.Excluded, kIdxEnum)
	}

	sExpr := show16(c.U)
	if c.Obj {
		sExpr = "new String(" + sExpr + ")"
	}
	js := "__idx(" + sExpr + "," + c.Key.render("k") + ")"
	res, bad := evalIndex(js)
	if bad != "" {
		o.Fail = js + ": " + bad
		return o
	}
	get := func(i int) string { return res[i].repr }
	text := func(s string) string { return "string:" + strconv.QuoteToASCII(s) }
	str := func(u []uint16) string {
		s, _ := harness.FromUTF16(u)
		return text(s)
	}
	num := func(i int) string { return fmt.Sprintf("number:%d", i) }
	boolean := func(b bool) string { return fmt.Sprintf("boolean:%v", b) }

	idxList := make([]string, n)
	for i := range idxList {
		idxList[i] = fmt.Sprint(i)
	}
	sort.Strings(idxList)
	keysWant := strings.Join(idxList, ",")
	namesWant := sortedJoin(strings.Join(append(append([]string{}, idxList...), "length"), ","))

	type ob struct {
		i    int
		what string
		want string
	}
	var obs []ob
	switch {
	case isIdx:
		ch := str([]uint16{unit})
		obs = []ob{{0, "typeof s[k]", text("string")}, {1, "s[k]", ch}, {2, "k in Object(s)", boolean(true)}, {3, "hasOwnProperty(k)", boolean(true)},
			{4, "propertyIsEnumerable(k)", boolean(true)}, {5, "descriptor [typeof value|writable|enumerable|configurable]", text("string|false|true|false")}, {6, "descriptor.value", ch},
			{11, "typeof q[k] after q[k]=\"Z!\"", text("string")}, {12, "q[k] after q[k]=\"Z!\" (not writable)", ch}, {13, "delete q[k]", boolean(false)}, {14, "typeof q[k] after delete", text("string")}}
	case isLen:
		obs = []ob{{0, "typeof s[k]", text("number")}, {1, "s[k]", num(n)}, {2, "k in Object(s)", boolean(true)}, {3, "hasOwnProperty(k)", boolean(true)},
			{4, "propertyIsEnumerable(k)", boolean(false)}, {5, "descriptor", text("number|false|false|false")}, {6, "descriptor.value", num(n)},
			{11, "typeof q.length after assignment", text("number")}, {12, "q.length after assignment", num(n)}, {13, "delete q.length", boolean(false)}, {14, "typeof q.length after delete", text("number")}}
	default:
		obs = []ob{{0, "typeof s[k]", text("undefined")}, {1, "s[k]", "undefined"}, {2, "k in Object(s)", boolean(false)}, {3, "hasOwnProperty(k)", boolean(false)},
			{4, "propertyIsEnumerable(k)", boolean(false)}, {5, "descriptor", text("none")},
			{11, "typeof q[k] after q[k]=\"Z!\"", text("string")}, {12, "q[k] after q[k]=\"Z!\" (ordinary new property)", text("Z!")}, {13, "delete q[k]", boolean(true)}, {14, "typeof q[k] after delete", text("undefined")}}
	}
	obs = append(obs, ob{7, "s.length", num(n)}, ob{8, "Object(s).length", num(n)}, ob{15, "q.length after q.length=99", num(n)})
	for _, x := range obs {
		got := get(x.i)
		want := x.want
		if modEnum {
			if x.i == 4 {
				continue
			}
			if x.i == 5 {
				got = strings.Replace(got, "string|false|false|false", "string|false|true|false", 1) // compared modulo finding C09-INDEX-ENUMERABLE
			}
		}
		if lengthOnly && (x.i == 1 || x.i == 6 || x.i == 12) {
			if !res[x.i].isStr || len(res[x.i].u) != 1 {
				o.Fail = fmt.Sprintf("%s: %s = %s, want a one-unit string (15.5.5.2)", js, x.what, got)
				return o
			}
			continue
		}
		if got != want {
			o.Fail = fmt.Sprintf("%s: %s = %s, want %s (15.5.5.1-2, 8.12)", js, x.what, got, want)
			return o
		}
	}
	if g := sortedJoin(string(harnessASCII(res[9].u))); g != keysWant {
		o.Fail = fmt.Sprintf("%s: Object.keys = {%s}, want {%s} (index properties are enumerable, length is not)", js, g, keysWant)
		return o
	}
	if hasUnit(c.U, 0xFFFD) && known(kFFFD) {
		o.Excluded = append(o.Excluded, kFFFD) // getOwnPropertyNames drops the index of a U+FFFD unit (same sentinel)
		return o
	}
	if g := sortedJoin(string(harnessASCII(res[10].u))); g != namesWant {
		o.Fail = fmt.Sprintf("%s: getOwnPropertyNames = {%s}, want {%s}", js, g, namesWant)
	}
	return o
}

func harnessASCII(u []uint16) []byte {
	b := make([]byte, len(u))
	for i, c := range u {
		if c > 0x7f {
			b[i] = '?'
		} else {
			b[i] = byte(c)
		}
	}
	return b
}

func hasUnit(u []uint16, x uint16) bool {
	for _, c := range u {
		if c == x {
			return true
		}
	}
	return false
}

// idxObs is one observation of the __idx probe.
type idxObs struct {
	repr  string
	isStr bool
	u     []uint16
}

// evalIndex runs the probe call and decodes its 16 observations (a variable for the same reason as evalCall).
var evalIndex = func(js string) ([]idxObs, string) {
	r := harness.Run(getVM(), js)
	if r.Panicked || r.Err != nil {
		if r.Panicked {
			dropVM()
		}
		return nil, r.Describe()
	}
	ro := r.Value.Object()
	if ro == nil {
		return nil, "harness: probe did not return an array"
	}
	out := make([]idxObs, 16)
	for i := range out {
		v, _ := ro.Get(fmt.Sprint(i))
		out[i].repr = harness.Repr(v)
		out[i].u, out[i].isStr = units(v)
	}
	return out, ""
}
