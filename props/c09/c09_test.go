// Package c09 decides property C09: String methods follow ES5 15.5 with UTF-16 code-unit indexing.
//
// Files: c09_test.go (runtime access, JS value descriptions and their ES5 conversions),
// calls_test.go (String.prototype methods on every receiver/argument kind), index_test.go
// (15.5.5 indexing and length), misc_test.go (fromCharCode, localeCompare laws, case mapping, trim).
package c09

import (
	"math"
	"strconv"
	"strings"
	"testing"

	"github.com/robertkrimen/otto"
	"pgregory.net/rapid"

	"verif/lib/es5"
	"verif/lib/gen"
	"verif/lib/harness"
)

func TestMain(m *testing.M) { harness.Main(m, "C09") }

// ---- known findings (ids; exclusion classes are applied where the facets decide) ---------------

const (
	kLone        = "C09-LONE-SURROGATE"     // representation limit: half of a surrogate pair cannot be stored
	kThisUndef   = "C09-THIS-UNDEFINED"     // f.call(undefined) / f.apply(undefined) / f() reach built-ins with the global object
	kCharAtRecv  = "C09-CHARAT-RECEIVER"    // charAt/charCodeAt read [[PrimitiveValue]] instead of ToString(this): crash on other receivers
	kFFFD        = "C09-FFFD-SENTINEL"      // U+FFFD in the receiver is taken for "index out of range"
	kIndexBytes  = "C09-INDEXOF-BYTES"      // indexOf/lastIndexOf apply the position to UTF-8 bytes
	kLastPos     = "C09-LASTINDEXOF-POS"    // lastIndexOf: NaN position treated as 0, -Infinity as +Infinity
	kAstralRunes = "C09-ASTRAL-RUNES"       // slice/substring/substr count code points, not code units
	kSubstrOver  = "C09-SUBSTR-OVERFLOW"    // substr(start>0, length>=2^63) overflows and panics
	kSplitLim0   = "C09-SPLIT-LIM0-ORDER"   // split(sep, 0) returns before ToString(separator)
	kIdxCanon    = "C09-INDEX-NONCANONICAL" // "01", "+1", "-0" accepted as String object indices
	kIdxEnum     = "C09-INDEX-ENUMERABLE"   // index properties of String objects reported as non-enumerable
)

// ---- otto access -------------------------------------------------------------------------------

var (
	vm     *otto.Otto
	vmUses int
)

const prelude = `var __log=[];
function __ots(g,s){return {toString:function(){__log.push(g+".t");return s}}}
function __ovo(g,n,s){return {valueOf:function(){__log.push(g+".v");return n},toString:function(){__log.push(g+".t");return s}}}
function __ofall(g,s){return {toString:function(){__log.push(g+".t");return {}},valueOf:function(){__log.push(g+".v");return s}}}
function __othrow(g){return {toString:function(){__log.push(g+".t");throw new RangeError("boom")},valueOf:function(){__log.push(g+".v");throw new RangeError("boom")}}}
function __obad(g){return {toString:function(){__log.push(g+".t");return {}},valueOf:function(){__log.push(g+".v");return []}}}
function __sobjts(g,p,s){var o=new String(p);o.toString=function(){__log.push(g+".t");return s};return o}`

func getVM() *otto.Otto {
	if vm == nil || vmUses > 2000 {
		vm = otto.New()
		if _, err := vm.Run(prelude + "\n" + indexProbe); err != nil {
			panic(err)
		}
		vmUses = 0
	}
	vmUses++
	return vm
}

// dropVM forces a fresh runtime (after a panic crossed the API the old one is not trusted).
func dropVM() { vm = nil }

func show16(u []uint16) string { return harness.JSString16(u) }

// ---- JS value descriptions -----------------------------------------------------------------------

// val describes one JS value used as receiver or argument. It is JSON-serialisable.
//
//	str    primitive string U
//	num    number N (exact literal)
//	bool   N = "true" / "false"
//	undef, null
//	sobj   new String(U)
//	sobjts new String(U) with an own, logging toString returning V
//	ots    {toString: logs, returns U}
//	ovo    {valueOf: logs, returns number N; toString: logs, returns U}
//	ofall  {toString: logs, returns an object; valueOf: logs, returns string U}
//	othrow {toString, valueOf: log and throw RangeError}
//	obad   {toString, valueOf: log and return objects}  (ToPrimitive must throw TypeError, 8.12.8)
//	oplain {} (ToString "[object Object]", ToNumber NaN, nothing logged)
//	arr    array literal of A (elements: str, num, null, undef)
type val struct {
	K string   `json:"k"`
	U []uint16 `json:"u,omitempty"`
	V []uint16 `json:"v,omitempty"`
	N string   `json:"n,omitempty"`
	A []val    `json:"a,omitempty"`
}

func vStr(u []uint16) val   { return val{K: "str", U: u} }
func vNum(x float64) val    { return val{K: "num", N: harness.NumLit(x)} }
func vUndef() val           { return val{K: "undef"} }
func asc(s string) []uint16 { return harness.UTF16(s) }

func parseLit(l string) float64 {
	switch l {
	case "NaN":
		return math.NaN()
	case "Infinity":
		return math.Inf(1)
	case "-Infinity":
		return math.Inf(-1)
	case "-0":
		return math.Copysign(0, -1)
	}
	f, err := strconv.ParseFloat(l, 64)
	if err != nil {
		panic("bad numeric literal in case: " + l)
	}
	return f
}

// jsNum renders a number literal: integers of moderate size as integer literals (otto keeps those
// as Go integers internally, a different path from doubles), everything else exactly.
func jsNum(l string) string {
	x := parseLit(l)
	if x == math.Trunc(x) && math.Abs(x) < 1e15 && !(x == 0 && math.Signbit(x)) {
		return strconv.FormatInt(int64(x), 10)
	}
	return l
}

func (v val) isObject() bool {
	switch v.K {
	case "sobj", "sobjts", "ots", "ovo", "ofall", "othrow", "obad", "arr", "oplain":
		return true
	}
	return false
}

// logs reports whether converting the value can leave a trace in __log (or throw).
func (v val) logs() bool {
	switch v.K {
	case "sobjts", "ots", "ovo", "ofall", "othrow", "obad":
		return true
	}
	return false
}

// render gives the JS expression; tag names the value in the conversion log.
func (v val) render(tag string) string {
	q := `"` + tag + `"`
	switch v.K {
	case "str":
		return show16(v.U)
	case "num":
		return jsNum(v.N)
	case "bool":
		return v.N
	case "undef":
		return "undefined"
	case "null":
		return "null"
	case "sobj":
		return "new String(" + show16(v.U) + ")"
	case "sobjts":
		return "__sobjts(" + q + "," + show16(v.U) + "," + show16(v.V) + ")"
	case "ots":
		return "__ots(" + q + "," + show16(v.U) + ")"
	case "ovo":
		return "__ovo(" + q + "," + jsNum(v.N) + "," + show16(v.U) + ")"
	case "ofall":
		return "__ofall(" + q + "," + show16(v.U) + ")"
	case "othrow":
		return "__othrow(" + q + ")"
	case "obad":
		return "__obad(" + q + ")"
	case "oplain":
		return "({})"
	case "arr":
		p := make([]string, len(v.A))
		for i, e := range v.A {
			p[i] = e.render(tag)
		}
		return "[" + strings.Join(p, ",") + "]"
	}
	panic("val kind " + v.K)
}

// ---- ES5 conversions of described values (9.1, 9.3, 9.8, 8.12.8), with the trace they must leave --

type jsThrow struct{ name string }

type conv struct{ log []string }

func (c *conv) note(tag, which string) { c.log = append(c.log, tag+"."+which) }

func boolStr(n string) []uint16 { return asc(n) }

// toString is ToString (9.8); panics with jsThrow when the conversion must throw.
func (c *conv) toString(v val, tag string) []uint16 {
	switch v.K {
	case "str", "sobj":
		return v.U // String.prototype.toString of an unmodified String object: its [[PrimitiveValue]]
	case "num":
		return asc(es5.NumberToString(parseLit(v.N)))
	case "bool":
		return boolStr(v.N)
	case "undef":
		return asc("undefined")
	case "null":
		return asc("null")
	case "sobjts":
		c.note(tag, "t")
		return v.V
	case "ots", "ovo":
		c.note(tag, "t")
		return v.U
	case "ofall":
		c.note(tag, "t")
		c.note(tag, "v")
		return v.U
	case "othrow":
		c.note(tag, "t")
		panic(jsThrow{"RangeError"})
	case "obad":
		c.note(tag, "t")
		c.note(tag, "v")
		panic(jsThrow{"TypeError"})
	case "oplain": // Object.prototype.toString (15.2.4.2)
		return asc("[object Object]")
	case "arr": // Array.prototype.toString -> join(",") (15.4.4.2, 15.4.4.5)
		var out []uint16
		for i, e := range v.A {
			if i > 0 {
				out = append(out, ',')
			}
			if e.K == "undef" || e.K == "null" {
				continue
			}
			out = append(out, c.toString(e, tag)...)
		}
		return out
	}
	panic("val kind " + v.K)
}

// toNumber is ToNumber (9.3).
func (c *conv) toNumber(v val, tag string) float64 {
	switch v.K {
	case "str", "sobj", "sobjts": // String.prototype.valueOf gives the primitive; an own toString is not consulted
		return es5.StringToNumber(v.U)
	case "num":
		return parseLit(v.N)
	case "bool":
		if v.N == "true" {
			return 1
		}
		return 0
	case "undef":
		return math.NaN()
	case "null":
		return 0
	case "ots": // Object.prototype.valueOf returns the object: fall through to toString
		c.note(tag, "t")
		return es5.StringToNumber(v.U)
	case "ovo":
		c.note(tag, "v")
		return parseLit(v.N)
	case "ofall":
		c.note(tag, "v")
		return es5.StringToNumber(v.U)
	case "othrow":
		c.note(tag, "v")
		panic(jsThrow{"RangeError"})
	case "obad":
		c.note(tag, "v")
		c.note(tag, "t")
		panic(jsThrow{"TypeError"})
	case "oplain": // valueOf returns the object, toString gives "[object Object]": NaN
		return math.NaN()
	case "arr":
		return es5.StringToNumber(c.toString(v, tag))
	}
	panic("val kind " + v.K)
}

// ---- generators ------------------------------------------------------------------------------------

// extra code units beyond the shared alphabets: every ES5 WhiteSpace/LineTerminator character and
// near misses (U+0085, U+200B are not white space; U+180E is left out: appendix B).
var wsUnits = []uint16{0x09, 0x0A, 0x0B, 0x0C, 0x0D, 0x20, 0xA0, 0x1680, 0x2000, 0x2001, 0x2005, 0x200A, 0x2028, 0x2029, 0x202F, 0x205F, 0x3000, 0xFEFF, 0x85, 0x200B, 0x1F, 0x1C}

// genUnits draws a well-formed UTF-16 string of at most max units over the four shared alphabets,
// sometimes with a small alphabet (so that substrings repeat and searches/splits find matches).
func genUnits(max int) *rapid.Generator[[]uint16] {
	return rapid.Custom(func(t *rapid.T) []uint16 {
		if rapid.IntRange(0, 2).Draw(t, "small") > 0 {
			return gen.Units16(max).Draw(t, "units")
		}
		// small alphabet: a, b, é, U+FFFD, U+4E2D, one astral character
		n := rapid.IntRange(0, max).Draw(t, "len")
		var out []uint16
		for len(out) < n {
			switch k := rapid.IntRange(0, 7).Draw(t, "sa"); {
			case k < 2:
				out = append(out, 'a')
			case k < 4:
				out = append(out, 'b')
			case k == 4:
				out = append(out, 0xE9)
			case k == 5:
				out = append(out, rapid.SampledFrom([]uint16{0x4E2D, 0xFFFD, ','}).Draw(t, "bmp"))
			default:
				if len(out)+2 <= n {
					out = append(out, 0xD835, 0xDCB3)
				} else {
					out = append(out, ',')
				}
			}
		}
		return out
	})
}

// safe numbers for string contexts: their ToString is outside every number-formatting finding (C06).
var stringyNums = []float64{0, math.Copysign(0, -1), 1, -1, 5, 12, 42, 255, 1.5, -2.25, 0.1, 1e21, 1e-7, 0.000001, 123456789, 4294967296, math.NaN(), math.Inf(1), math.Inf(-1)}

// numeric strings whose ToNumber is outside the string-to-number findings (C05/C06 own those).
var numericStrings = []string{"", " ", "0", "1", " 2 ", "-1", "+3", "1.9", "-1.9", ".5", "5.", "0x2", "1e1", "Infinity", "-Infinity", "abc", "1 2", "\t7\n", "12", "-0", "\ufeff3"}

func genArrayVal(t *rapid.T) val {
	n := rapid.IntRange(0, 3).Draw(t, "alen")
	v := val{K: "arr", A: []val{}}
	for i := 0; i < n; i++ {
		switch rapid.IntRange(0, 4).Draw(t, "ael") {
		case 0:
			v.A = append(v.A, val{K: "null"})
		case 1:
			v.A = append(v.A, val{K: "undef"})
		case 2:
			v.A = append(v.A, vNum(rapid.SampledFrom(stringyNums).Draw(t, "anum")))
		default:
			v.A = append(v.A, vStr(genUnits(3).Draw(t, "astr")))
		}
	}
	return v
}

// genStringy draws a value for a string context (receiver, search string, separator, concat
// argument) whose ToString is s, or of an arbitrary kind when s is nil.
func genStringy(t *rapid.T, s []uint16, label string) val {
	if s == nil {
		s = genUnits(6).Draw(t, label+"-s")
	}
	switch k := rapid.IntRange(0, 19).Draw(t, label+"-kind"); {
	case k < 10:
		return vStr(s)
	case k < 12:
		return val{K: "sobj", U: s}
	case k < 14:
		return val{K: "ots", U: s}
	case k == 14:
		return val{K: "ovo", U: s, N: harness.NumLit(rapid.SampledFrom(stringyNums).Draw(t, label+"-n"))}
	case k == 15:
		return val{K: "ofall", U: s}
	case k == 16:
		return val{K: "sobjts", U: genUnits(4).Draw(t, label+"-prim"), V: s}
	case k == 17:
		return val{K: "arr", A: []val{vStr(s)}}
	case k == 18:
		return vNum(rapid.SampledFrom(stringyNums).Draw(t, label+"-num"))
	default:
		return rapid.SampledFrom([]val{{K: "bool", N: "true"}, {K: "bool", N: "false"}, {K: "null"}, {K: "undef"}, {K: "othrow"}, {K: "obad"}}).Draw(t, label+"-odd")
	}
}

// imageVals: argument values whose ToString is a short text ("undefined", "null", "NaN", "0",
// "[object Object]", "true", …). A receiver that CONTAINS such a text tells "the argument was treated
// as undefined / absent" from "the argument was converted to a string and used literally".
var imageVals = []val{{K: "undef"}, {K: "undef"}, {K: "undef"}, {K: "null"}, {K: "num", N: "NaN"}, {K: "num", N: "0e+00"}, {K: "num", N: "-0"}, {K: "num", N: "1e+00"},
	{K: "num", N: "-1e+00"}, {K: "num", N: "Infinity"}, {K: "num", N: "1.2e+01"}, {K: "bool", N: "true"}, {K: "bool", N: "false"}, {K: "oplain"},
	{K: "arr", A: []val{{K: "num", N: "1e+00"}, {K: "num", N: "2e+00"}}}, {K: "arr", A: []val{{K: "null"}, {K: "undef"}}}, {K: "str", U: []uint16{'a', 'b'}}}

// genImageString draws one of imageVals and a string that contains its ToString image once or
// twice, surrounded by 0–3 units of the small alphabets (non-ASCII included, so that positions count).
func genImageString(t *rapid.T) ([]uint16, val) {
	v := rapid.SampledFrom(imageVals).Draw(t, "image-val")
	img := (&conv{}).toString(v, "i")
	out := append([]uint16{}, genUnits(3).Draw(t, "image-pre")...)
	out = append(out, img...)
	if rapid.IntRange(0, 3).Draw(t, "image-twice") == 0 {
		out = append(out, genUnits(2).Draw(t, "image-mid")...)
		out = append(out, img...)
	}
	out = append(out, genUnits(3).Draw(t, "image-post")...)
	return out, v
}

// genRecv draws a receiver. Its ToString is known to the generator through (*conv).toString.
func genRecv(t *rapid.T, s []uint16) val {
	switch k := rapid.IntRange(0, 39).Draw(t, "recv-kind"); {
	case k < 18:
		return vStr(s)
	case k < 22:
		return val{K: "sobj", U: s}
	case k < 25:
		return val{K: "ots", U: s}
	case k < 27:
		return val{K: "ovo", U: s, N: "7"}
	case k < 29:
		return val{K: "ofall", U: s}
	case k < 31:
		return val{K: "sobjts", U: genUnits(4).Draw(t, "recv-prim"), V: s}
	case k < 33:
		return genArrayVal(t)
	case k < 35:
		return vNum(rapid.SampledFrom(stringyNums).Draw(t, "recv-num"))
	case k == 35:
		return val{K: "bool", N: rapid.SampledFrom([]string{"true", "false"}).Draw(t, "recv-bool")}
	case k == 36:
		return val{K: "null"}
	case k == 37:
		return val{K: "undef"}
	case k == 38:
		return val{K: "othrow"}
	default:
		return val{K: "obad"}
	}
}

// the "odd" position pool of DESIGN §3, relative to a string of n units.
func genPosNumber(t *rapid.T, n int, label string) float64 {
	switch k := rapid.IntRange(0, 9).Draw(t, label+"-pk"); {
	case k < 5:
		base := rapid.SampledFrom([]int{-n - 1, -n, -n + 1, -2, -1, 0, 1, 2, n - 1, n, n + 1, n / 2}).Draw(t, label+"-base")
		frac := rapid.SampledFrom([]float64{0, 0, 0, 0.5, -0.5, 0.9, -0.9, 1e-9}).Draw(t, label+"-frac")
		return float64(base) + frac
	case k < 7:
		return float64(rapid.IntRange(-14, 14).Draw(t, label+"-small"))
	default:
		return rapid.SampledFrom([]float64{math.NaN(), math.Inf(1), math.Inf(-1), math.Copysign(0, -1), 2147483647, 2147483648, 4294967295, 4294967296, 4294967297,
			-2147483648, -2147483649, -4294967296, 9007199254740992, -9007199254740992, 9223372036854775808, -9223372036854775808, 1e19, 1e300, -1e300, 5e-324, 0.49999999999999994}).Draw(t, label+"-special")
	}
}

// genPos draws a position / length / limit argument of any kind.
func genPos(t *rapid.T, n int, label string) val {
	switch k := rapid.IntRange(0, 29).Draw(t, label+"-kind"); {
	case k < 17:
		return vNum(genPosNumber(t, n, label))
	case k < 19:
		return vUndef()
	case k == 19:
		return val{K: "null"}
	case k == 20:
		return val{K: "bool", N: rapid.SampledFrom([]string{"true", "false"}).Draw(t, label+"-b")}
	case k < 23:
		return vStr(asc(rapid.SampledFrom(numericStrings).Draw(t, label+"-ns")))
	case k < 26:
		return val{K: "ovo", N: harness.NumLit(genPosNumber(t, n, label)), U: asc("9")}
	case k == 26:
		return val{K: "ots", U: asc(rapid.SampledFrom(numericStrings).Draw(t, label+"-ots"))}
	case k == 27:
		return val{K: "ofall", U: asc(rapid.SampledFrom(numericStrings).Draw(t, label+"-ofall"))}
	case k == 28:
		return rapid.SampledFrom([]val{{K: "arr", A: []val{}}, {K: "arr", A: []val{vNum(2)}}, {K: "arr", A: []val{vNum(1), vNum(2)}}, {K: "sobj", U: asc("2")}, {K: "sobjts", U: asc("1"), V: asc("3")}}).Draw(t, label+"-objs")
	default:
		return rapid.SampledFrom([]val{{K: "othrow"}, {K: "obad"}}).Draw(t, label+"-bad")
	}
}

// plainPos: an in-range non-negative integer literal (the trivial class of the non-triviality rule).
func plainPos(v val, n int) bool {
	if v.K != "num" {
		return false
	}
	x := parseLit(v.N)
	return x == math.Trunc(x) && x >= 0 && x <= float64(n) && !(x == 0 && math.Signbit(x))
}

func fmtLog(l []string) string { return strings.Join(l, ",") }

func hasAstral(u []uint16) bool {
	for i := 0; i+1 < len(u); i++ {
		if u[i] >= 0xD800 && u[i] < 0xDC00 && u[i+1] >= 0xDC00 && u[i+1] < 0xE000 {
			return true
		}
	}
	return false
}

func alphabetClasses(u []uint16) []string {
	var out []string
	switch {
	case len(u) == 0:
		out = append(out, "recv:empty")
	case gen.AllASCII(u):
		out = append(out, "recv:ascii")
	case hasAstral(u):
		out = append(out, "recv:astral")
	default:
		out = append(out, "recv:bmp-non-ascii")
	}
	return out
}

// known reports whether a finding's exclusion class is active in this run: the finding is listed
// for C09 and its pinned witness still fails on the tree under test.
func known(id string) bool { return harness.Known(id) }
