package c09

// TEMPORARY development-time cross-check of the reference model against Node (removed before hand-in).

import (
	"encoding/json"
	"fmt"
	"os"
	"os/exec"
	"strconv"
	"testing"

	"pgregory.net/rapid"

	"verif/lib/harness"
)

type nodeVal struct {
	T string    `json:"t"`
	U []uint16  `json:"u"`
	V string    `json:"v"`
	A []nodeVal `json:"a"`
}

type nodeRes struct {
	E string
	L string
	R nodeVal
}

func (r *nodeRes) UnmarshalJSON(b []byte) error {
	var raw []json.RawMessage
	if err := json.Unmarshal(b, &raw); err != nil {
		return err
	}
	json.Unmarshal(raw[0], &r.E)
	json.Unmarshal(raw[1], &r.L)
	return json.Unmarshal(raw[2], &r.R)
}

const nodeDriver = `
var fs=require('fs');
var input=JSON.parse(fs.readFileSync(process.argv[2],'utf8'));
(0,eval)(input.prelude);
function enc(v){ if(typeof v==='string'){var u=[];for(var i=0;i<v.length;i++)u.push(v.charCodeAt(i));return {t:'string',u:u}}
 if(typeof v==='number'){return {t:'number',v:(Object.is(v,-0)?'-0':String(v))}}
 if(Array.isArray(v)) return {t:'array',a:v.map(enc)};
 if(typeof v==='boolean') return {t:'boolean',v:String(v)};
 if(v===undefined) return {t:'undefined'};
 return {t:'other',v:String(v)} }
var out=input.exprs.map(function(x){ globalThis.__log=[]; var r,e='none'; try{ r=(0,eval)('('+x+')') }catch(ex){ e=(ex instanceof Error)?ex.name:'non-error'; r=0 } return [e,globalThis.__log.join(','),enc(r)] });
fs.writeFileSync(process.argv[3],JSON.stringify(out));
`

func runNode(t *testing.T, exprs []string) map[string]nodeRes {
	dir := t.TempDir()
	in, _ := json.Marshal(map[string]interface{}{"prelude": prelude + "\n" + indexProbe, "exprs": exprs})
	os.WriteFile(dir+"/in.json", in, 0o644)
	os.WriteFile(dir+"/drv.js", []byte(nodeDriver), 0o644)
	cmd := exec.Command("/usr/bin/node", dir+"/drv.js", dir+"/in.json", dir+"/out.json")
	if b, err := cmd.CombinedOutput(); err != nil {
		t.Fatalf("node: %v\n%s", err, b)
	}
	b, _ := os.ReadFile(dir + "/out.json")
	var res []nodeRes
	if err := json.Unmarshal(b, &res); err != nil {
		t.Fatal(err)
	}
	m := map[string]nodeRes{}
	for i, e := range exprs {
		m[e] = res[i]
	}
	return m
}

func nodeRepr(v nodeVal) string {
	switch v.T {
	case "undefined":
		return "undefined"
	case "boolean":
		return "boolean:" + v.V
	case "number":
		return "number:" + harness.NumRepr(parseLit(v.V))
	case "string":
		s, _ := harness.FromUTF16(v.U)
		return "string:" + strconv.QuoteToASCII(s)
	}
	return "other:" + v.V
}

func toObserved(r nodeRes) observed {
	g := observed{err: r.E, log: r.L, typ: "other", jslen: -1, repr: nodeRepr(r.R)}
	switch r.R.T {
	case "string":
		g.typ, g.str, g.jslen = "string", r.R.U, len(r.R.U)
		if g.str == nil {
			g.str = []uint16{}
		}
	case "number":
		g.typ, g.num = "number", parseLit(r.R.V)
	case "array":
		g.typ, g.arrN = "array", len(r.R.A)
		for i, el := range r.R.A {
			if el.T != "string" {
				g.arrBad = fmt.Sprintf("element %d not a string", i)
				break
			}
			g.arr = append(g.arr, el.U)
		}
	}
	return g
}

func crossFacet[C any](t *testing.T, f *harness.Facet[C], n int, skip func(c C) bool) {
	g := rapid.Custom(f.Gen)
	var cases []C
	for i := 0; i < n; i++ {
		cases = append(cases, g.Example(i+1))
	}
	// pass 1: collect expressions
	var exprs []string
	seen := map[string]bool{}
	add := func(e string) {
		if !seen[e] {
			seen[e] = true
			exprs = append(exprs, e)
		}
	}
	saveCall, saveIdx, saveLone, saveCmp := evalCall, evalIndex, loneKnown, compareLiterals
	defer func() { evalCall, evalIndex, loneKnown, compareLiterals = saveCall, saveIdx, saveLone, saveCmp }()
	loneKnown = func() bool { return false }
	compareLiterals = func(a, b []uint16) (float64, string) { return 0, "" }
	evalCall = func(e string) observed { add(e); return observed{bad: "collect"} }
	evalIndex = func(e string) ([]idxObs, string) { add(e); return nil, "collect" }
	knownOff = true
	defer func() { knownOff = false }()
	for _, c := range cases {
		f.Check(c)
	}
	res := runNode(t, exprs)
	evalCall = func(e string) observed { return toObserved(res[e]) }
	evalIndex = func(e string) ([]idxObs, string) {
		r := res[e]
		if r.E != "none" {
			return nil, "threw " + r.E
		}
		out := make([]idxObs, 16)
		for i := range out {
			el := r.R.A[i]
			out[i] = idxObs{repr: nodeRepr(el), isStr: el.T == "string", u: el.U}
		}
		return out, ""
	}
	bad, ran := 0, 0
	for _, c := range cases {
		if skip != nil && skip(c) {
			continue
		}
		o := f.Check(c)
		if o.Discard != "" {
			continue
		}
		ran++
		if o.Fail != "" {
			bad++
			if bad <= 12 {
				b, _ := json.Marshal(c)
				t.Errorf("model vs node: %s\n   case %s", o.Fail, b)
			}
		}
	}
	t.Logf("%s: %d cases compared with node, %d disagreements", f.Name, ran, bad)
}

func TestNodeCross(t *testing.T) {
	if os.Getenv("C09_NODE") == "" {
		t.Skip("development-time only")
	}
	n := 4000
	noCmp := func(c callCase) bool { return c.Method == "localeCompare" }
	crossFacet(t, accessFacet, n, nil)
	crossFacet(t, searchFacet, n, nil)
	crossFacet(t, extractFacet, n, nil)
	crossFacet(t, splitFacet, n, nil)
	crossFacet(t, caseTrimFacet, n, noCmp)
	crossFacet(t, indexFacet, n, nil)
	crossFacet(t, fccFacet, n, nil)
	crossFacet(t, caseFacet, n, nil)
	crossFacet(t, trimFacet, n, nil)
}
