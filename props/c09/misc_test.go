package c09

import (
	"fmt"
	"math"
	"strings"
	"testing"

	"pgregory.net/rapid"

	"verif/lib/gen"
	"verif/lib/harness"
	"verif/lib/m09"
)

// ---- String.fromCharCode (15.5.3.2) ------------------------------------------------------------------

type fccCase struct {
	Via  string `json:"via"` // direct | apply | call
	Args []val  `json:"args"`
}

var fccNumbers = []float64{0, 9, 65, 97, 0x7F, 0x80, 0xE9, 0xFF, 0x100, 0x3A3, 0x2028, 0xD7FF, 0xE000, 0xFEFF, 0xFFFD, 0xFFFF, 0x10000, 0x10041, 0x1F600, 0x10FFFF,
	-1, -65, -65535, -65536, 65.9, -0.5, 0.5, -65.9, math.Copysign(0, -1), 2147483648 + 66, 4294967296 + 67, -4294967296 + 68, 9007199254740992 + 70, -9007199254740992, 1e10, 4611686018427388928}

func genFccArg(t *rapid.T) val {
	switch k := rapid.IntRange(0, 19).Draw(t, "fcc-kind"); {
	case k < 9:
		return vNum(rapid.SampledFrom(fccNumbers).Draw(t, "fcc-num"))
	case k < 11:
		return vNum(float64(rapid.IntRange(0, 0x1FFFF).Draw(t, "fcc-rand")))
	case k == 11:
		return vNum(rapid.SampledFrom([]float64{math.NaN(), math.Inf(1), math.Inf(-1)}).Draw(t, "fcc-special"))
	case k == 12:
		return vUndef()
	case k == 13:
		return rapid.SampledFrom([]val{{K: "null"}, {K: "bool", N: "true"}, {K: "bool", N: "false"}}).Draw(t, "fcc-prim")
	case k < 16:
		return vStr(asc(rapid.SampledFrom([]string{"65", " 66 ", "0x43", "6.8e1", "", "abc", "-1", "65536", "65601", "Infinity"}).Draw(t, "fcc-str")))
	case k < 18:
		return val{K: "ovo", N: harness.NumLit(rapid.SampledFrom(fccNumbers).Draw(t, "fcc-ovo")), U: asc("1")}
	case k == 18:
		return val{K: "ots", U: asc(rapid.SampledFrom([]string{"70", "0x47", "x"}).Draw(t, "fcc-ots"))}
	default:
		return rapid.SampledFrom([]val{{K: "othrow"}, {K: "obad"}, {K: "arr", A: []val{vNum(72)}}, {K: "ofall", U: asc("73")}}).Draw(t, "fcc-odd")
	}
}

var fccFacet = harness.Register(&harness.Facet[fccCase]{
	Name:     "fromCharCode",
	Rule:     "rapid: String.fromCharCode with 0–6 arguments: code unit values of every alphabet, surrogate halves (alone and as well-formed pairs), negative, fractional, ≥ 2^16, ≥ 2^32, 2^53, 2^62, NaN, ±Infinity, -0, random 0…0x1FFFF, undefined, null, booleans, numeric strings, objects with logging valueOf/toString (incl. throwing); called directly or through apply/call; oracle: ToUint16 (9.7) of ToNumber of each argument, left to right, one unit each: result length always compared, content compared as code units unless it holds a lone surrogate (representation limit, counted); non-trivial = some argument is not an integer literal in 0…0x7F; distinct by (via, arguments)",
	Quick:    8000,
	Thorough: 25000,
	Gen: func(t *rapid.T) fccCase {
		c := fccCase{Via: rapid.SampledFrom([]string{"direct", "direct", "apply", "call"}).Draw(t, "via"), Args: []val{}}
		n := rapid.IntRange(0, 6).Draw(t, "nargs")
		for len(c.Args) < n {
			switch k := rapid.IntRange(0, 29).Draw(t, "what"); {
			case k < 3 && len(c.Args)+2 <= n:
				p := rapid.SampledFrom(gen.AstralPairs).Draw(t, "pair")
				c.Args = append(c.Args, vNum(float64(p[0])), vNum(float64(p[1])))
			case k == 3:
				c.Args = append(c.Args, vNum(float64(rapid.SampledFrom([]uint16{0xD800, 0xDBFF, 0xDC00, 0xDFFF, 0xD835}).Draw(t, "half"))))
			default:
				c.Args = append(c.Args, genFccArg(t))
			}
		}
		return c
	},
	Check: func(c fccCase) harness.Outcome {
		o := harness.Outcome{Classes: []string{"via:" + c.Via, fmt.Sprintf("nargs:%d", len(c.Args))}}
		cv := &conv{}
		var nums []float64
		throw := ""
		func() {
			defer func() {
				if p := recover(); p != nil {
					jt, ok := p.(jsThrow)
					if !ok {
						panic(p)
					}
					throw = jt.name
				}
			}()
			for i, a := range c.Args {
				nums = append(nums, cv.toNumber(a, fmt.Sprint(i)))
			}
		}()
		parts := make([]string, len(c.Args))
		for i, a := range c.Args {
			parts[i] = a.render(fmt.Sprint(i))
			o.Classes = append(o.Classes, "arg-kind:"+a.K)
			if a.K != "num" {
				o.Nontrivial = true
			} else if x := parseLit(a.N); x != math.Trunc(x) || x < 0 || x > 0x7F || (x == 0 && math.Signbit(x)) {
				o.Nontrivial = true
			}
		}
		args := strings.Join(parts, ",")
		expr := "String.fromCharCode(" + args + ")"
		switch c.Via {
		case "apply":
			expr = "String.fromCharCode.apply(null,[" + args + "])"
		case "call":
			expr = "String.fromCharCode.call(" + strings.TrimSuffix("undefined,"+args, ",") + ")"
		}
		g := evalCall(expr)
		if g.bad != "" {
			o.Fail = expr + ": " + g.bad
			return o
		}
		wantLog := fmtLog(cv.log)
		if throw != "" {
			o.Classes = append(o.Classes, "expect-throw:"+throw)
			if g.err != throw || g.log != wantLog {
				o.Fail = fmt.Sprintf("%s: must throw %s after conversions [%s]; got %s after [%s] (15.5.3.2, 9.3)", expr, throw, wantLog, g.err, g.log)
			}
			return o
		}
		want := m09.FromCharCode(nums)
		if g.err != "none" {
			o.Fail = fmt.Sprintf("%s: threw %s, want %s", expr, g.err, show16(want))
			return o
		}
		if g.log != wantLog {
			o.Fail = fmt.Sprintf("%s: conversion trace [%s], want [%s] (ToNumber of each argument once, left to right)", expr, g.log, wantLog)
			return o
		}
		if g.typ != "string" {
			o.Fail = fmt.Sprintf("%s: result %s is not a primitive string", expr, g.repr)
			return o
		}
		got := g.str
		if g.jslen != len(want) {
			o.Fail = fmt.Sprintf("%s: result length %d, want %d (%s) (15.5.3.2: one unit per argument)", expr, g.jslen, len(want), show16(want))
			return o
		}
		if m09.HasLoneSurrogate(want) {
			o.Classes = append(o.Classes, "result:lone-surrogate")
			if loneKnown() {
				o.Excluded = append(o.Excluded, kLone)
				return o
			}
		}
		if !m09.Equal(got, want) {
			o.Fail = fmt.Sprintf("%s = %s, ToUint16 of the arguments gives %s (15.5.3.2, 9.7)", expr, show16(got), show16(want))
		}
		return o
	},
})

func TestFromCharCode(t *testing.T) { fccFacet.Run(t) }

// ---- localeCompare laws (15.5.4.9) --------------------------------------------------------------------

type cmpCase struct {
	A []uint16 `json:"a"`
	B []uint16 `json:"b"`
	C []uint16 `json:"c"`
}

var cmpFacet = harness.Register(&harness.Facet[cmpCase]{
	Name:     "localeCompare-laws",
	Rule:     "rapid: triples of strings ≤8 units over the four alphabets (b and c are often a, a prefix or an extension of an earlier string so that equal and adjacent strings arise); the order itself is implementation-defined, so only the laws of a consistent comparison function (15.5.4.9 with 15.4.4.11) are demanded: results are numbers and not NaN, a~a = 0, sign(a~b) = -sign(b~a), a~b = 0 exactly when a and b are the same code unit sequence (the alphabets hold no canonically equivalent pairs), a≤b and b≤c imply a≤c (and dually); non-trivial = some string is non-ASCII; distinct by the triple",
	Quick:    6000,
	Thorough: 20000,
	Gen: func(t *rapid.T) cmpCase {
		derive := func(base []uint16, label string) []uint16 {
			switch rapid.IntRange(0, 5).Draw(t, label+"-how") {
			case 0:
				return append([]uint16{}, base...)
			case 1:
				return append(append([]uint16{}, base...), genUnits(2).Draw(t, label+"-ext")...)
			case 2:
				return genSub(t, base, 8, label+"-sub")
			}
			return genUnits(8).Draw(t, label)
		}
		a := genUnits(8).Draw(t, "a")
		b := derive(a, "b")
		c := derive(b, "c")
		return cmpCase{A: a, B: b, C: c}
	},
	Check: func(c cmpCase) harness.Outcome {
		o := harness.Outcome{Nontrivial: !gen.AllASCII(c.A) || !gen.AllASCII(c.B) || !gen.AllASCII(c.C)}
		js := "(function(a,b,c){return [a.localeCompare(b),b.localeCompare(a),a.localeCompare(a),b.localeCompare(c),a.localeCompare(c),c.localeCompare(a)]})(" + show16(c.A) + "," + show16(c.B) + "," + show16(c.C) + ")"
		r := harness.Run(getVM(), js)
		if r.Panicked || r.Err != nil {
			if r.Panicked {
				dropVM()
			}
			o.Fail = js + ": " + r.Describe()
			return o
		}
		ro := r.Value.Object()
		var v [6]float64
		for i := range v {
			x, _ := ro.Get(fmt.Sprint(i))
			if !x.IsNumber() {
				o.Fail = fmt.Sprintf("%s: result %d is %s, not a number", js, i, harness.Repr(x))
				return o
			}
			v[i], _ = x.ToFloat()
			if math.IsNaN(v[i]) {
				o.Fail = fmt.Sprintf("%s: result %d is NaN", js, i)
				return o
			}
		}
		ab, ba, aa, bc, ac, ca := v[0], v[1], v[2], v[3], v[4], v[5]
		if m09.Equal(c.A, c.B) {
			o.Classes = append(o.Classes, "a=b")
		}
		switch {
		case aa != 0:
			o.Fail = fmt.Sprintf("%s: a.localeCompare(a) = %v", js, aa)
		case sign(ab) != -sign(ba):
			o.Fail = fmt.Sprintf("%s: a~b = %v but b~a = %v (not antisymmetric)", js, ab, ba)
		case sign(ac) != -sign(ca):
			o.Fail = fmt.Sprintf("%s: a~c = %v but c~a = %v (not antisymmetric)", js, ac, ca)
		case (ab == 0) != m09.Equal(c.A, c.B):
			o.Fail = fmt.Sprintf("%s: a~b = %v; zero exactly when the strings are identical", js, ab)
		case (bc == 0) != m09.Equal(c.B, c.C):
			o.Fail = fmt.Sprintf("%s: b~c = %v; zero exactly when the strings are identical", js, bc)
		case ab <= 0 && bc <= 0 && ac > 0, ab >= 0 && bc >= 0 && ac < 0:
			o.Fail = fmt.Sprintf("%s: a~b = %v, b~c = %v, a~c = %v (not transitive)", js, ab, bc, ac)
		}
		return o
	},
})

func TestLocaleCompareLaws(t *testing.T) { cmpFacet.Run(t) }

// ---- case mapping over the committed table, trim over every white space character -----------------------

type textCase struct {
	Method string   `json:"method"`
	U      []uint16 `json:"u"`
}

func encodeRune(r rune) []uint16 {
	if r >= 0x10000 {
		r -= 0x10000
		return []uint16{uint16(0xD800 + (r >> 10)), uint16(0xDC00 + (r & 0x3ff))}
	}
	return []uint16{uint16(r)}
}

var caseLetters = m09.CaseLetters()

// characters whose treatment is the point of the domain rules: full ≠ simple, Final_Sigma contexts
var caseSpecial = []rune{0xDF, 0x130, 0x131, 0x149, 0x17F, 0x3A3, 0x3C2, 0x3C3, 0x390, 0x3B0, 0xB5, 0xFF, 0x178, 0x1C5, 0x212A, 0x2126, 0x10400, 0x10428, 0x1E9E}

func checkText(c textCase) harness.Outcome {
	o := harness.Outcome{Classes: []string{"method:" + c.Method}, Nontrivial: !gen.AllASCII(c.U)}
	var want []uint16
	verdict := m09.CaseOK
	switch c.Method {
	case "toLowerCase":
		want, verdict = m09.ToLower(c.U)
	case "toUpperCase":
		want, verdict = m09.ToUpper(c.U)
	case "trim":
		want = m09.Trim(c.U)
	default:
		panic("method " + c.Method)
	}
	if verdict != m09.CaseOK {
		o.Discard = verdict
		return o
	}
	o.Classes = append(o.Classes, alphabetClasses(c.U)...)
	if !m09.Equal(want, c.U) {
		o.Classes = append(o.Classes, "changes-the-string")
	}
	if len(want) != len(c.U) {
		o.Classes = append(o.Classes, "changes-the-length")
	}
	expr := show16(c.U) + "." + c.Method + "()"
	g := evalCall(expr)
	if g.bad != "" || g.err != "none" {
		o.Fail = fmt.Sprintf("%s: %s %s", expr, g.bad, g.err)
		return o
	}
	got := g.str
	if g.typ != "string" || !m09.Equal(got, want) || g.jslen != len(want) {
		o.Fail = fmt.Sprintf("%s = %s (length %d), want %s (ES5.1 %s)", expr, show16(got), g.jslen, show16(want), clause[c.Method])
	}
	return o
}

var caseFacet = harness.Register(&harness.Facet[textCase]{
	Name:     "case-mapping-table",
	Rule:     "rapid: toLowerCase/toUpperCase on strings ≤10 units drawn from the committed simple case mapping table (Latin-1, Latin Extended-A, U+01C4-01CC incl. title-case letters, basic Greek, basic Cyrillic, Kelvin/Ohm/Angstrom signs, full-width letters, astral Deseret), the characters whose full mapping differs (ß, İ, ŉ, ΐ, ΰ, Σ in final position) and the four shared alphabets; oracle: lib/m09 table (UnicodeData simple mappings, one-to-one); strings for which the full mapping of SpecialCasing.txt or the Unicode version would matter are discarded and counted (appendix B); non-trivial = non-ASCII string; distinct by (method, string)",
	Quick:    8000,
	Thorough: 25000,
	Gen: func(t *rapid.T) textCase {
		c := textCase{Method: rapid.SampledFrom([]string{"toLowerCase", "toUpperCase"}).Draw(t, "method")}
		n := rapid.IntRange(0, 10).Draw(t, "len")
		for len(c.U) < n {
			switch k := rapid.IntRange(0, 9).Draw(t, "src"); {
			case k < 5:
				c.U = append(c.U, encodeRune(rapid.SampledFrom(caseLetters).Draw(t, "letter"))...)
			case k == 5:
				c.U = append(c.U, encodeRune(rapid.SampledFrom(caseSpecial).Draw(t, "special"))...)
			case k == 6:
				c.U = append(c.U, rapid.SampledFrom([]uint16{' ', '1', '-', '\n', 'a', 'Z'}).Draw(t, "ascii"))
			default:
				c.U = append(c.U, gen.Units16(2).Draw(t, "shared")...)
			}
		}
		return c
	},
	Check: checkText,
})

func TestCaseMapping(t *testing.T) { caseFacet.Run(t) }

var trimFacet = harness.Register(&harness.Facet[textCase]{
	Name:     "trim-whitespace",
	Rule:     "rapid: trim on strings ≤12 units where every unit is an ES5 WhiteSpace/LineTerminator character (TAB VT FF SP NBSP BOM, Zs members, LF CR LS PS), a near miss (U+0085, U+200B, U+001C, U+001F) or an ordinary character of the four alphabets, so white space occurs at both ends and inside; U+180E left out (Unicode-version dependent, appendix B); oracle: 15.5.4.20 with 7.2/7.3; non-trivial = non-ASCII string; distinct by string",
	Quick:    6000,
	Thorough: 20000,
	Gen: func(t *rapid.T) textCase {
		c := textCase{Method: "trim"}
		n := rapid.IntRange(0, 12).Draw(t, "len")
		for len(c.U) < n {
			if rapid.Bool().Draw(t, "ws") {
				c.U = append(c.U, rapid.SampledFrom(wsUnits).Draw(t, "wsu"))
			} else {
				c.U = append(c.U, gen.Units16(1).Draw(t, "other")...)
			}
		}
		return c
	},
	Check: checkText,
})

func TestTrim(t *testing.T) { trimFacet.Run(t) }

// ---- search / match / replace with an argument that is NOT a RegExp (15.5.4.10-12, the string-valued corner) -----

// plainCase: search(v), match(v) or replace(v, w) on a primitive string, v and w primitive values,
// plain objects or arrays (nothing that logs). RegExp arguments belong to C10; this facet only pins
// how a non-RegExp argument is turned into the thing searched for: undefined/omitted → the empty
// pattern for search/match (15.10.4.1), ToString(v) used literally otherwise.
type plainCase struct {
	Method string   `json:"method"`
	U      []uint16 `json:"u"`
	Args   []val    `json:"args"`
}

func regexSafe(u []uint16) bool {
	for _, c := range u {
		if !(c >= '0' && c <= '9' || c >= 'a' && c <= 'z' || c >= 'A' && c <= 'Z') {
			return false
		}
	}
	return true
}

func hasUnit16(u []uint16, x uint16) bool {
	for _, c := range u {
		if c == x {
			return true
		}
	}
	return false
}

var plainFacet = harness.Register(&harness.Facet[plainCase]{
	Name:     "search-match-replace-plain-argument",
	Rule:     "rapid: search(v) / match(v) / replace(v, w) on a primitive string that contains (once or twice, between units of the small alphabets) the ToString image of v, or on a random string; v, w ∈ {explicit undefined, omitted, null, NaN, ±0, 1, -1, 12, Infinity, true, false, {}, [1,2], [null,undefined], \"ab\"} (w also a random string without '$'); oracle: search/match with undefined or no argument use the empty pattern (result 0 / [\"\"] at index 0), otherwise ToString(v) is searched literally (patterns restricted to [A-Za-z0-9]* for search/match, others discarded); match result checked as [matched text], index, input; replace substitutes the first occurrence of ToString(v) by ToString(w) ('$' kept out: replacement patterns are C10); non-trivial = non-ASCII string or an argument that is not a string; distinct by (method, string, arguments)",
	Quick:    6000,
	Thorough: 20000,
	Gen: func(t *rapid.T) plainCase {
		c := plainCase{Method: rapid.SampledFrom([]string{"search", "match", "replace", "replace"}).Draw(t, "method"), Args: []val{}}
		s, v := genImageString(t)
		if rapid.IntRange(0, 5).Draw(t, "random-recv") == 0 {
			s = genUnits(10).Draw(t, "s")
		}
		c.U = s
		if !(v.K == "undef" && rapid.IntRange(0, 2).Draw(t, "omit") == 0) {
			c.Args = append(c.Args, v)
		}
		if c.Method == "replace" && len(c.Args) == 1 && rapid.IntRange(0, 4).Draw(t, "with-w") > 0 {
			if rapid.Bool().Draw(t, "w-image") {
				c.Args = append(c.Args, rapid.SampledFrom(imageVals).Draw(t, "w"))
			} else {
				c.Args = append(c.Args, vStr(genUnits(3).Draw(t, "w-str")))
			}
		}
		return c
	},
	Check: func(c plainCase) harness.Outcome {
		o := harness.Outcome{Classes: []string{"method:" + c.Method, fmt.Sprintf("nargs:%d", len(c.Args))}, Nontrivial: !gen.AllASCII(c.U)}
		cv := &conv{}
		parts := make([]string, len(c.Args))
		for i, a := range c.Args {
			if a.logs() {
				o.Discard = "logging argument: not this facet's domain"
				return o
			}
			parts[i] = a.render(fmt.Sprint(i))
			o.Classes = append(o.Classes, fmt.Sprintf("arg%d:%s", i, a.K))
			if a.K != "str" {
				o.Nontrivial = true
			}
		}
		if len(c.Args) == 0 {
			o.Nontrivial = true
		}
		arg := func(i int) val {
			if i < len(c.Args) {
				return c.Args[i]
			}
			return vUndef()
		}
		call := show16(c.U) + "." + c.Method + "(" + strings.Join(parts, ",") + ")"
		switch c.Method {
		case "search", "match":
			pat := []uint16{} // new RegExp(undefined) is the empty pattern (15.10.4.1)
			if arg(0).K != "undef" {
				pat = cv.toString(arg(0), "0")
				if !regexSafe(pat) {
					o.Discard = "pattern text has regular expression syntax (C10)"
					return o
				}
			}
			idx := m09.IndexOf(c.U, pat, 0)
			if idx >= 0 {
				o.Classes = append(o.Classes, "found")
			}
			if c.Method == "search" {
				g := evalCall(call)
				if g.bad != "" || g.err != "none" || g.typ != "number" || g.num != float64(idx) {
					o.Fail = fmt.Sprintf("%s = %s %s %s, want %d: a non-RegExp argument is compiled with new RegExp(ToString(v)), undefined gives the empty pattern (15.5.4.12, 15.10.4.1)", call, g.repr, g.bad, g.err, idx)
				}
				return o
			}
			g := evalCall("(function(r){return r===null?null:[String(r.length),r[0],String(r.index),r.input,typeof r[0]]})(" + call + ")")
			if g.bad != "" || g.err != "none" {
				o.Fail = fmt.Sprintf("%s: %s %s", call, g.bad, g.err)
				return o
			}
			if idx < 0 {
				if g.repr != "null" {
					o.Fail = fmt.Sprintf("%s = %s %s, want null (15.5.4.10)", call, g.repr, showArr(g.arr))
				}
				return o
			}
			want := [][]uint16{asc("1"), pat, asc(fmt.Sprint(idx)), c.U, asc("string")}
			same := g.typ == "array" && g.arrBad == "" && len(g.arr) == len(want)
			for i := 0; same && i < len(want); i++ {
				same = m09.Equal(g.arr[i], want[i])
			}
			if !same {
				o.Fail = fmt.Sprintf("%s gives [length, [0], index, input, typeof [0]] = %s %s, want %s (15.5.4.10, 15.10.6.2)", call, g.repr, showArr(g.arr), showArr(want))
			}
		case "replace":
			search := cv.toString(arg(0), "0")
			repl := cv.toString(arg(1), "1")
			if hasUnit16(repl, '$') {
				o.Discard = "replacement text contains $ (C10)"
				return o
			}
			want := append([]uint16{}, c.U...)
			if idx := m09.IndexOf(c.U, search, 0); idx >= 0 {
				o.Classes = append(o.Classes, "found")
				want = append(append(append([]uint16{}, c.U[:idx]...), repl...), c.U[idx+len(search):]...)
			}
			g := evalCall(call)
			if g.bad != "" || g.err != "none" || g.typ != "string" || !m09.Equal(g.str, want) || g.jslen != len(want) {
				o.Fail = fmt.Sprintf("%s = %s %s %s, want %s: searchString = ToString(searchValue), newstring = ToString(replaceValue), first occurrence (15.5.4.11)", call, show16(g.str), g.bad, g.err, show16(want))
			}
		default:
			panic("method " + c.Method)
		}
		return o
	},
})

func TestPlainArgument(t *testing.T) { plainFacet.Run(t) }
