package c08

import (
	"encoding/json"
	"math"
	"os"
	"strconv"
	"testing"

	"pgregory.net/rapid"

	"verif/lib/es5"
	"verif/lib/harness"
)

// TestEmitCases is a development aid, inactive unless C08_EMIT names an output file: it writes
// generated cases (script + the model's prediction) as JSON so that the *model* can be compared
// with another engine by hand on the sub-domain where ES5.1 and later editions agree. Nothing in
// the check depends on it.
func TestEmitCases(t *testing.T) {
	path := os.Getenv("C08_EMIT")
	if path == "" {
		t.Skip("development aid (C08_EMIT not set)")
	}
	n, _ := strconv.Atoi(os.Getenv("C08_EMIT_N"))
	if n == 0 {
		n = 2000
	}
	type item struct {
		Case   json.RawMessage `json:"case"`
		Script string          `json:"script"`
		Want   []string        `json:"want"`
		Alt    []string        `json:"alt"`
	}
	var out struct {
		Prelude string `json:"prelude"`
		Cases   []item `json:"cases"`
	}
	out.Prelude = prelude
	g := rapid.Custom(genMethodCase)
	for i := 0; i < n; i++ {
		c := g.Example(i)
		if !lengthAgrees(&c.Env) {
			continue
		}
		x := c.predict(nil)
		if x.tooLong || x.maxShrink > slowShrink {
			continue
		}
		raw, _ := json.Marshal(c)
		out.Cases = append(out.Cases, item{Case: raw, Script: c.script(), Want: x.sections()})
	}
	gh := rapid.Custom(genHistory)
	for i := 0; i < n; i++ {
		c := gh.Example(i)
		p := c.predict(c.Ops, nil)
		if p.tooLong || p.maxShrink > slowShrink {
			continue
		}
		raw, _ := json.Marshal(c)
		out.Cases = append(out.Cases, item{Case: raw, Script: c.script(c.Ops), Want: p.steps})
	}
	b, _ := json.Marshal(out)
	if err := os.WriteFile(path, b, 0o644); err != nil {
		t.Fatal(err)
	}
}

// lengthAgrees: ToUint32 (ES5.1) and ToLength (ES2015) give the same length for the receiver.
func lengthAgrees(e *Env) bool {
	r := e.Recv
	if r.Kind != "object" || r.Len == nil {
		return true
	}
	var x float64
	switch l := *r.Len; l.K {
	case "n":
		x = parseLit(l.N)
	case "s":
		x = es5.StringToNumber(harness.UTF16(l.S))
	case "ref":
		switch l.S {
		case "V1", "V2", "V3":
			x = parseLit(e.VNums[l.S[1]-'1'])
		case "T1", "T2":
			x = es5.StringToNumber(harness.UTF16(e.TStrs[l.S[1]-'1']))
		default:
			x = math.NaN()
		}
	case "t":
		x = 1
	default:
		x = 0
	}
	if math.IsNaN(x) {
		return true
	}
	return x > -1 && x < 4294967296
}
