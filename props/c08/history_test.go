package c08

import (
	"fmt"
	"strconv"
	"strings"
	"testing"

	"pgregory.net/rapid"

	"verif/lib/harness"
	"verif/lib/m08"
)

// ---- facet: index spellings and length assignments over short histories --------------------------------------

// HOp is one step of a history on the array R.
//
//	set   R[Key]=V                     del   delete R[Key]            has  Key in R        get  R[Key]
//	len   R.length=V                   def   Object.defineProperty(R,Key,{value:V,writable:W,enumerable:true,configurable:C})
//	deflen Object.defineProperty(R,"length",{value:V?,writable:W})    push R.push(V)       pop  R.pop()
//	freeze / seal / preventExt          Object.*(R)
type HOp struct {
	Op  string `json:"op"`
	Key *Val   `json:"key,omitempty"`
	V   *Val   `json:"v,omitempty"`
	W   bool   `json:"w,omitempty"`
	C   bool   `json:"c,omitempty"`
}

type histCase struct {
	Env
	Ops []HOp `json:"ops"`
}

const stepSep = "\x1f"

func (op HOp) js() string {
	switch op.Op {
	case "set":
		return fmt.Sprintf("R[%s]=%s", op.Key.js(), op.V.js())
	case "del":
		return fmt.Sprintf("delete R[%s]", op.Key.js())
	case "has":
		return fmt.Sprintf("(%s in R)", op.Key.js())
	case "get":
		return fmt.Sprintf("R[%s]", op.Key.js())
	case "len":
		return fmt.Sprintf("R.length=%s", op.V.js())
	case "def":
		return fmt.Sprintf("Object.defineProperty(R,%s,{value:%s,writable:%s,enumerable:true,configurable:%s})", op.Key.js(), op.V.js(), boolJS(op.W), boolJS(op.C))
	case "deflen":
		if op.V == nil {
			return fmt.Sprintf("Object.defineProperty(R,'length',{writable:%s})", boolJS(op.W))
		}
		return fmt.Sprintf("Object.defineProperty(R,'length',{value:%s,writable:%s})", op.V.js(), boolJS(op.W))
	case "push":
		return fmt.Sprintf("R.push(%s)", op.V.js())
	case "pop":
		return "R.pop()"
	case "freeze":
		return "Object.freeze(R)"
	case "seal":
		return "Object.seal(R)"
	case "preventExt":
		return "Object.preventExtensions(R)"
	}
	panic("c08: unknown history op " + op.Op)
}

// apply performs the step on the model and returns the value of the expression.
func (op HOp) apply(w *world) m08.Value {
	m, r := w.m, w.recv
	key := func() string { return m.ToString(w.val(*op.Key)) } // 11.2.1: property name = ToString(key)
	switch op.Op {
	case "set":
		k, v := key(), w.val(*op.V)
		m.Put(r, k, v, false)
		return v
	case "del":
		return m08.BoolV(m.Delete(r, key(), false))
	case "has":
		return m08.BoolV(r.HasProperty(key()))
	case "get":
		return r.Get(key())
	case "len":
		v := w.val(*op.V)
		m.Put(r, "length", v, false)
		return v
	case "def":
		v := w.val(*op.V)
		m.DefineOwnProperty(r, key(), m08.Desc{V: &v, W: bp(op.W), E: bp(true), C: bp(op.C)}, true)
		return m08.ObjV(r)
	case "deflen":
		d := m08.Desc{W: bp(op.W)}
		if op.V != nil {
			v := w.val(*op.V)
			d.V = &v
		}
		m.DefineOwnProperty(r, "length", d, true)
		return m08.ObjV(r)
	case "push":
		return m.Push(m08.ObjV(r), []m08.Value{w.val(*op.V)})
	case "pop":
		return m.Pop(m08.ObjV(r), nil)
	case "freeze":
		m.Freeze(r)
		return m08.ObjV(r)
	case "seal":
		m.Seal(r)
		return m08.ObjV(r)
	case "preventExt":
		r.Ext = false
		return m08.ObjV(r)
	}
	panic("c08: unknown history op " + op.Op)
}

// keyName is the property name the key denotes (keys are strings or numbers: no side effects).
func keyName(k Val) string {
	m := m08.NewMachine()
	switch k.K {
	case "s":
		return k.S
	case "n":
		return m.ToString(m08.NumV(parseLit(k.N)))
	}
	panic("c08: history keys are strings or numbers")
}

// nonCanonicalIndexClass: the exclusion class of finding C08-NONCANONICAL-INDEX — names that are not
// array indices (15.4) but that strconv.ParseInt reads as an integer in [0, 2^32-2].
func nonCanonicalIndexClass(name string) bool {
	if _, ok := m08.IsArrayIndex(name); ok {
		return false
	}
	v, err := strconv.ParseInt(name, 10, 64)
	return err == nil && v >= 0 && v < 4294967295
}

func (c *histCase) script(ops []HOp) string {
	var b strings.Builder
	b.WriteString(c.Env.setupJS())
	b.WriteString("var out=__D(R),r,err;")
	for _, op := range ops {
		fmt.Fprintf(&b, "r='';err='';__log='';try{r=__S(%s)}catch(e){err=__E(e)}out+=\"\\x1e\"+r+\"\\x1f\"+err+\"\\x1f\"+__log+\"\\x1f\"+__D(R);", op.js())
	}
	b.WriteString("return out;")
	return b.String()
}

type histPrediction struct {
	steps     []string
	maxShrink uint32
	tooLong   bool
}

func (c *histCase) predict(ops []HOp, configure func(m *m08.Machine)) (p histPrediction) {
	w := c.Env.build()
	if configure != nil {
		configure(w.m)
	}
	p.steps = append(p.steps, m08.Dump(w.recv))
	defer func() {
		if x := recover(); x != nil {
			if _, ok := x.(m08.TooLong); ok {
				p.tooLong = true
				return
			}
			panic(x)
		}
	}()
	for _, op := range ops {
		w.m.Log = nil
		ret := ""
		t := m08.Try(func() { ret = m08.Ser(op.apply(w)) })
		p.steps = append(p.steps, ret+stepSep+errSer(t)+stepSep+logText(w.m.Log)+stepSep+m08.Dump(w.recv))
	}
	p.maxShrink = w.m.MaxShrink
	return p
}

// lengthInvariant checks one rendered array state on its own (no model): length is an integer in
// [0, 2^32-1] and exceeds every own array index.
func lengthInvariant(dump string) string {
	var length float64 = -1
	var indices []uint32
	for _, ent := range strings.Split(dump, ";") {
		name, rest, ok := strings.Cut(ent, "=")
		if !ok {
			continue
		}
		if name == "length" {
			if len(rest) < 4 || rest[3] != 'n' {
				return "length is not a number: " + rest
			}
			f, err := strconv.ParseFloat(rest[4:], 64)
			if err != nil {
				return "length is not a finite number: " + rest
			}
			length = f
			continue
		}
		if i, isIndex := m08.IsArrayIndex(name); isIndex {
			indices = append(indices, i)
		}
	}
	if length < 0 || length > 4294967295 || length != float64(uint32(length)) {
		return fmt.Sprintf("length %v is not an integer in [0, 2^32-1]", length)
	}
	for _, i := range indices {
		if float64(i) >= length {
			return fmt.Sprintf("own array index %d is not below length %v (15.4: length is always greater than every array index)", i, length)
		}
	}
	return ""
}

func checkHistory(c histCase) harness.Outcome {
	o := harness.Outcome{Nontrivial: true}
	ops := c.Ops
	if harness.Known("C08-NONCANONICAL-INDEX") {
		ops = nil
		for _, op := range c.Ops {
			if op.Key != nil && nonCanonicalIndexClass(keyName(*op.Key)) {
				o.Excluded = append(o.Excluded, "C08-NONCANONICAL-INDEX")
				continue
			}
			ops = append(ops, op)
		}
	}
	trivial := true
	for _, op := range ops {
		o.Classes = append(o.Classes, "op:"+op.Op)
		if op.Key != nil {
			name := keyName(*op.Key)
			_, isIndex := m08.IsArrayIndex(name)
			switch {
			case isIndex && op.Key.smallIndex():
				o.Classes = append(o.Classes, "key:small-index")
			case isIndex:
				o.Classes = append(o.Classes, "key:index-other-spelling-or-large")
				trivial = false
			default:
				o.Classes = append(o.Classes, "key:not-an-index")
				trivial = false
			}
		}
		if op.Op != "set" && op.Op != "get" && op.Op != "has" && op.Op != "push" {
			trivial = false
		}
	}
	o.Nontrivial = !trivial
	pure := c.predict(ops, nil)
	if pure.tooLong || pure.maxShrink > slowShrink {
		o.Discard = "legitimately slow: a length assignment walks over more than 20000 indices (DESIGN appendix B)"
		return o
	}
	got, bad := runScript(c.script(ops), false)
	if bad != "" {
		o.Fail = bad + "\nscript: " + c.script(ops)
		return o
	}
	for i, g := range got {
		d := g
		if i > 0 {
			parts := strings.Split(g, stepSep)
			d = parts[len(parts)-1]
		}
		if msg := lengthInvariant(d); msg != "" {
			o.Fail = fmt.Sprintf("length invariant broken after step %d: %s; state %s\nscript: %s", i, msg, show(d), c.script(ops))
			return o
		}
	}
	for _, s := range pure.steps[1:] {
		parts := strings.Split(s, stepSep)
		if parts[1] != "" {
			o.Classes = append(o.Classes, "throws:"+parts[1])
		}
	}
	if sameSections(pure.steps, got) {
		return o
	}
	var active []distortion
	for _, d := range distortions {
		if harness.Known(d.id) {
			active = append(active, d)
		}
	}
	if len(active) > 0 {
		all := func(m *m08.Machine) {
			for _, d := range active {
				d.set(m)
			}
		}
		if dist := c.predict(ops, all).steps; !sameSections(dist, pure.steps) && sameSections(dist, got) {
			for _, d := range active {
				if !sameSections(c.predict(ops, d.set).steps, pure.steps) {
					o.Excluded = append(o.Excluded, d.id)
				}
			}
			return o
		}
	}
	for i := range pure.steps {
		if i >= len(got) || pure.steps[i] != got[i] {
			g := "<missing>"
			if i < len(got) {
				g = show(got[i])
			}
			what := "initial state"
			if i > 0 {
				what = fmt.Sprintf("step %d `%s` (value, thrown, log, array state)", i, ops[i-1].js())
			}
			o.Fail = fmt.Sprintf("array [[DefineOwnProperty]] (ES5.1 15.4.5.1) / 15.4.4: %s: ES5 gives %s, otto gives %s\nscript: %s", what, show(pure.steps[i]), g, c.script(ops))
			return o
		}
	}
	o.Fail = "otto reported more steps than the history has\nscript: " + c.script(ops)
	return o
}

var keyStrings = []string{"0", "1", "2", "3", "5", "01", "+1", "-0", "1.0", "1e0", " 1", "1 ", "00", "+0", "007", "0x1", "1.5", "-1", "",
	"4294967294", "4294967295", "4294967296", "4294967293", "x", "length"}
var keyNumbers = []string{"0", "1", "2", "4", "-0", "1.5", "-1", "0.1", "4294967294", "4294967295", "4294967296", "1e21", "NaN"}

func genKey(t *rapid.T) *Val {
	var v Val
	if rapid.IntRange(0, 3).Draw(t, "key-kind") == 0 {
		v = vn(rapid.SampledFrom(keyNumbers).Draw(t, "key-num"))
	} else {
		v = vs(keyStrings[pickUniform(t, "key-str", len(keyStrings))])
	}
	return &v
}

var lengthValues = []Val{
	vn("0"), vn("1"), vn("2"), vn("3"), vn("5"), vn("-0"), vn("1.5"), vn("-1"), vn("NaN"), vn("Infinity"), vn("4294967295"), vn("4294967296"), vn("4294967294"), vn("4294967290"), vn("2147483648"),
	vs("2"), vs(" 3 "), vs("0x2"), vs("1e0"), vs(""), vs("abc"), vs("4294967295"), vs("-0"), vs("1.0"),
	{K: "l"}, {K: "t"}, {K: "f"}, vu(), vref("V1"), vref("V2"), vref("T1"), vref("O1"),
}

func genHistory(t *rapid.T) histCase {
	var c histCase
	for i := 0; i < 2; i++ {
		c.VNums = append(c.VNums, rapid.SampledFrom([]string{"0", "1", "2", "3", "1.5", "-1", "NaN", "4294967295", "4294967296"}).Draw(t, "vnum"))
	}
	c.TStrs = []string{rapid.SampledFrom([]string{"1", "2", "", "x", " 3 ", "1.5"}).Draw(t, "tstr")}
	c.Recv = Recv{Kind: "array", Lit: rapid.Bool().Draw(t, "lit"), Elems: genElems(t, "init", 4, false)}
	n := rapid.IntRange(1, 4).Draw(t, "nops")
	kinds := []string{"set", "set", "set", "del", "len", "len", "len", "def", "def", "deflen", "push", "pop", "has", "get", "freeze", "seal", "preventExt"}
	for i := 0; i < n; i++ {
		op := HOp{Op: kinds[pickUniform(t, "op", len(kinds))]}
		switch op.Op {
		case "set", "def":
			op.Key = genKey(t)
			v := genElem(t, "v")
			op.V = &v
			op.W = rapid.Bool().Draw(t, "w")
			op.C = rapid.Bool().Draw(t, "c")
		case "del", "has", "get":
			op.Key = genKey(t)
		case "len":
			v := rapid.SampledFrom(lengthValues).Draw(t, "len")
			op.V = &v
		case "deflen":
			if rapid.Bool().Draw(t, "with-value") {
				v := rapid.SampledFrom(lengthValues).Draw(t, "len")
				op.V = &v
			}
			op.W = rapid.Bool().Draw(t, "w")
		case "push":
			v := genElem(t, "v")
			op.V = &v
		}
		c.Ops = append(c.Ops, op)
	}
	return c
}

var historyFacet = harness.Register(&harness.Facet[histCase]{
	Name:     "index-length-history",
	Rule:     "rapid: an array of ≤ 4 elements/holes and a history of 1–4 steps from {R[key]=v, delete R[key], key in R, R[key], R.length=v, defineProperty(R,key,{value,writable,configurable}), defineProperty(R,'length',{value?,writable}), push, pop, freeze, seal, preventExtensions}; keys from the index-spelling pool (\"0\" \"01\" \"+1\" \"-0\" \"1.0\" \"1e0\" \" 1\" \"00\" \"007\" \"0x1\" \"4294967294\" \"4294967295\" \"4294967296\" …, and numeric keys -0, 1.5, 2^32-2, 2^32-1, 2^32, 1e21, NaN), length values from the odd pool (fractions, negatives, NaN, 2^32-1, 2^32, numeric strings, booleans, null, undefined, valueOf/toString objects); after every step the value of the expression, the thrown class, the conversion log and the whole array state (own properties with attributes, extensibility) are compared with the lib/m08 model of ES5.1 15.4.5.1/8.12, and the length invariant (length integer in [0,2^32-1], above every own array index) is checked on otto's state alone; non-trivial = some step is not a plain set/get/has/push with a small canonical index; distinct by the whole history",
	Quick:    7000,
	Thorough: 35000,
	Gen:      genHistory,
	Check:    checkHistory,
})

func TestIndexLengthHistory(t *testing.T) { historyFacet.Run(t) }

// ---- facet: sparse arrays filled in arbitrary order, then restricted and shrunk ---------------------------------

func genSparseHistory(t *rapid.T) histCase {
	var c histCase
	c.VNums = []string{"0", "1"}
	c.TStrs = []string{"1"}
	c.Recv = Recv{Kind: "array", Elems: genElems(t, "init", 3, false)}
	index := func(label string) *Val {
		v := vn(strconv.Itoa(rapid.IntRange(0, 40).Draw(t, label)))
		if rapid.IntRange(0, 3).Draw(t, label+"-str") == 0 {
			v = vs(v.N)
		}
		return &v
	}
	n := rapid.IntRange(3, 9).Draw(t, "nops")
	kinds := []string{"set", "set", "set", "set", "def", "def", "len", "len", "del", "push", "pop", "seal", "deflen"}
	for i := 0; i < n; i++ {
		op := HOp{Op: kinds[pickUniform(t, "op", len(kinds))]}
		if i == n-1 && rapid.Bool().Draw(t, "end-with-shrink") {
			op.Op = "len"
		}
		switch op.Op {
		case "set":
			op.Key = index("key")
			v := genElem(t, "v")
			op.V = &v
		case "def":
			op.Key = index("key")
			v := genElem(t, "v")
			op.V = &v
			op.W = rapid.Bool().Draw(t, "w")
			op.C = rapid.IntRange(0, 3).Draw(t, "c") == 0 // mostly non-configurable
		case "del":
			op.Key = index("key")
		case "len":
			v := vn(strconv.Itoa(rapid.IntRange(0, 41).Draw(t, "len")))
			op.V = &v
		case "deflen":
			if rapid.Bool().Draw(t, "with-value") {
				v := vn(strconv.Itoa(rapid.IntRange(0, 41).Draw(t, "len")))
				op.V = &v
			}
			op.W = rapid.IntRange(0, 3).Draw(t, "w") > 0
		case "push":
			v := genElem(t, "v")
			op.V = &v
		}
		c.Ops = append(c.Ops, op)
	}
	return c
}

var sparseFacet = harness.Register(&harness.Facet[histCase]{
	Name:     "sparse-shrink-history",
	Rule:     "rapid: an array of ≤ 3 elements and a history of 3–9 steps from {R[i]=v, defineProperty(R,i,{…, configurable mostly false}), R.length=n, delete R[i], push, pop, seal, defineProperty(R,'length',…)} with indices drawn independently from 0..40 (so elements are created in arbitrary, not ascending, order and the array stays sparse) and lengths from 0..41, half of the histories ending with a length assignment; every step compared with the lib/m08 model of 15.4.5.1 (shrinking deletes strictly from the highest index down and stops at the first non-configurable element) and the length invariant checked on otto's state alone; non-trivial = some step is not a plain set/get/has/push with a small index; distinct by the whole history",
	Quick:    5000,
	Thorough: 12000,
	Gen:      genSparseHistory,
	Check:    checkHistory,
})

func TestSparseShrinkHistory(t *testing.T) { sparseFacet.Run(t) }
