package c08

import (
	"fmt"
	"strconv"
	"strings"
	"testing"

	"pgregory.net/rapid"

	"verif/lib/harness"
	"verif/lib/m08"
)

// ---- callbacks ---------------------------------------------------------------------------------------------

// Cb describes the callback CB of a case. Every invocation logs (arguments.length, value,
// typeof index, index, receiver identity, this); at invocation number MutAt it mutates the receiver,
// at invocation number ThrowAt it throws (after the mutation); otherwise it returns per Ret.
type Cb struct {
	Ret     string `json:"ret"` // t f v i u alt acc cat
	MutAt   int    `json:"mutAt"`
	Mut     string `json:"mut,omitempty"` // push pop delete length set
	MutI    int    `json:"mutI,omitempty"`
	MutV    *Val   `json:"mutV,omitempty"`
	ThrowAt int    `json:"throwAt"`
	Throw   string `json:"throw,omitempty"` // range val num
}

func (c *Cb) mutates() bool { return c != nil && c.MutAt >= 0 && c.Mut != "" }

// js renders the callback; reduce-style callbacks take (acc, v, i, o).
func (c *Cb) js(reduce bool) string {
	var b strings.Builder
	b.WriteString("var __n=0,__o0,__seen=false;function __id(o){if(!__seen){__seen=true;__o0=o;return 'first'}return o===__o0?'same':'other'}var CB=function(")
	if reduce {
		b.WriteString("acc,v,i,o){var k=__n++;L('cb:'+arguments.length+','+__S(acc)+','+__S(v)+','+typeof i+','+__S(i)+','+typeof o+':'+__id(o)+':'+__S(o)+','+__S(this));")
	} else {
		b.WriteString("v,i,o){var k=__n++;L('cb:'+arguments.length+','+__S(v)+','+typeof i+','+__S(i)+','+typeof o+':'+__id(o)+':'+__S(o)+','+__S(this));")
	}
	if c.mutates() {
		fmt.Fprintf(&b, "if(k===%d){", c.MutAt)
		switch c.Mut {
		case "push":
			fmt.Fprintf(&b, "Array.prototype.push.call(R,%s)", c.MutV.js())
		case "pop":
			b.WriteString("Array.prototype.pop.call(R)")
		case "delete":
			fmt.Fprintf(&b, "delete R[%d]", c.MutI)
		case "length":
			fmt.Fprintf(&b, "R.length=%d", c.MutI)
		case "set":
			fmt.Fprintf(&b, "R[%d]=%s", c.MutI, c.MutV.js())
		default:
			panic("c08: unknown mutation " + c.Mut)
		}
		b.WriteString("}")
	}
	if c.ThrowAt >= 0 {
		fmt.Fprintf(&b, "if(k===%d){throw %s}", c.ThrowAt, map[string]string{"range": "new RangeError('cb')", "val": "O1", "num": "7"}[c.Throw])
	}
	switch c.Ret {
	case "t":
		b.WriteString("return true")
	case "f":
		b.WriteString("return false")
	case "v":
		b.WriteString("return v")
	case "i":
		b.WriteString("return i")
	case "u":
		b.WriteString("return undefined")
	case "alt":
		b.WriteString("return k%2===0")
	case "acc":
		b.WriteString("return acc")
	case "cat":
		b.WriteString("return __S(acc)+__S(v)")
	default:
		panic("c08: unknown callback result " + c.Ret)
	}
	b.WriteString("};__reg(CB,'CB');")
	return b.String()
}

// model builds the same callback over the model world.
func (c *Cb) model(w *world, reduce bool) *m08.Object {
	n := 0
	var first m08.Value
	seen := false
	ident := func(o m08.Value) string {
		if !seen {
			seen, first = true, o
			return "first"
		}
		if m08.StrictEquals(o, first) {
			return "same"
		}
		return "other"
	}
	return w.m.NewFunction("CB", func(m *m08.Machine, this m08.Value, args []m08.Value) m08.Value {
		k := n
		n++
		a := func(i int) m08.Value {
			if i < len(args) {
				return args[i]
			}
			return m08.Undefined
		}
		// function code entered with a this value of undefined or null gets the global object (10.4.3)
		if this.K == m08.Undef || this.K == m08.Null {
			this = m08.ObjV(m.Global)
		}
		var acc, v, i, o m08.Value
		if reduce {
			acc, v, i, o = a(0), a(1), a(2), a(3)
			m.L(fmt.Sprintf("cb:%d,%s,%s,%s,%s,%s:%s:%s,%s", len(args), m08.Ser(acc), m08.Ser(v), m08.TypeOf(i), m08.Ser(i), m08.TypeOf(o), ident(o), m08.Ser(o), m08.Ser(this)))
		} else {
			v, i, o = a(0), a(1), a(2)
			m.L(fmt.Sprintf("cb:%d,%s,%s,%s,%s:%s:%s,%s", len(args), m08.Ser(v), m08.TypeOf(i), m08.Ser(i), m08.TypeOf(o), ident(o), m08.Ser(o), m08.Ser(this)))
		}
		if c.mutates() && k == c.MutAt {
			r := m08.ObjV(w.recv)
			switch c.Mut {
			case "push":
				m.Push(r, []m08.Value{w.val(*c.MutV)})
			case "pop":
				m.Pop(r, nil)
			case "delete":
				m.Delete(w.recv, strconv.Itoa(c.MutI), false)
			case "length":
				m.Put(w.recv, "length", m08.NumV(float64(c.MutI)), false)
			case "set":
				m.Put(w.recv, strconv.Itoa(c.MutI), w.val(*c.MutV), false)
			}
		}
		if c.ThrowAt >= 0 && k == c.ThrowAt {
			switch c.Throw {
			case "range":
				panic(&m08.Throw{Class: "RangeError"})
			case "val":
				panic(&m08.Throw{V: w.val(vref("O1"))})
			default:
				panic(&m08.Throw{V: m08.NumV(7)})
			}
		}
		switch c.Ret {
		case "t":
			return m08.BoolV(true)
		case "f":
			return m08.BoolV(false)
		case "v":
			return v
		case "i":
			return i
		case "alt":
			return m08.BoolV(k%2 == 0)
		case "acc":
			return acc
		case "cat":
			return m08.StrV(m08.Ser(acc) + m08.Ser(v))
		}
		return m08.Undefined
	})
}

// ---- the method-call facet ---------------------------------------------------------------------------------

type methodCase struct {
	Env
	Method string `json:"method"`
	Args   []Val  `json:"args"`
	Cb     *Cb    `json:"cb,omitempty"`
}

func isReduce(m string) bool { return m == "reduce" || m == "reduceRight" }

var iterMethods = map[string]bool{"every": true, "some": true, "forEach": true, "map": true, "filter": true, "reduce": true, "reduceRight": true}

// bigResult: methods whose result (or walk) grows with the length of the receiver; kept away from long array-likes.
var bigResult = map[string]bool{"slice": true, "splice": true, "map": true, "concat": true}

func (c *methodCase) script() string {
	var b strings.Builder
	b.WriteString(c.Env.setupJS())
	if c.Cb != nil {
		b.WriteString(c.Cb.js(isReduce(c.Method)))
	}
	args := make([]string, len(c.Args))
	for i, a := range c.Args {
		args[i] = a.js()
	}
	b.WriteString("var before=__D(R),setup=__log;__log='';var ret='',err='';try{ret=__S(")
	if c.Recv.Kind == "array" && c.Recv.Join == "" {
		fmt.Fprintf(&b, "R.%s(%s)", c.Method, strings.Join(args, ","))
	} else {
		fmt.Fprintf(&b, "Array.prototype.%s.call(%s)", c.Method, strings.Join(append([]string{"R"}, args...), ","))
	}
	b.WriteString(")}catch(e){err=__E(e)}")
	obs := []string{"before", "setup", "ret", "err", "__log", "__D(R)"}
	for i := range c.Xs {
		obs = append(obs, fmt.Sprintf("__D(X%d)", i))
	}
	b.WriteString(joinSections(obs...))
	return b.String()
}

// flags of the model that reproduce known findings, with the finding id that licenses each.
type distortion struct {
	id  string
	set func(m *m08.Machine)
}

var distortions = []distortion{
	{"C08-RESULT-HOLES", func(m *m08.Machine) { m.HolesToUndefined = true }},
	{"C08-REDUCERIGHT-STRING-INDEX", func(m *m08.Machine) { m.ReduceRightStrKey = true }},
	{"C08-REDUCE-ONLY-HOLES", func(m *m08.Machine) { m.ReduceNoTypeError = true }},
	{"C08-TOSTRING-FORWARDS-ARGS", func(m *m08.Machine) { m.ToStringPassArgs = true }},
	{"C08-LASTINDEXOF-FROM-LEN", func(m *m08.Machine) { m.LastIndexOfFromLen = true }},
	{"C08-LASTINDEXOF-EMPTY-COERCES", func(m *m08.Machine) { m.LastIndexOfEmptyCoerces = true }},
	{"C08-CALLABLE-CHECK-ORDER", func(m *m08.Machine) { m.CallableCheckFirst = true }},
	{"C08-JOIN-SEPARATOR-FIRST", func(m *m08.Machine) { m.JoinSeparatorFirst = true }},
	{"C08-LENGTH-SINGLE-CONVERSION", func(m *m08.Machine) { m.LengthSingleConversion = true }},
	{"C08-REVERSE-SORT-RETURN-THIS", func(m *m08.Machine) { m.ReverseReturnsThis = true }},
	{"C08-REVERSE-DELETE-FIRST", func(m *m08.Machine) { m.ReverseDeleteFirst = true }},
	{"C08-LENGTH-REDEFINE-SAME-VALUE", func(m *m08.Machine) { m.LengthEqualRejects = true }},
}

// expectation is the model's prediction for one configuration of the machine.
type expectation struct {
	before, setup, ret, err, log, after string
	xs                                  []string
	maxShrink                           uint32
	tooLong                             bool
}

func (x expectation) sections() []string {
	return append([]string{x.before, x.setup, x.ret, x.err, x.log, x.after}, x.xs...)
}

func (c *methodCase) predict(configure func(m *m08.Machine)) expectation {
	w := c.Env.build()
	if configure != nil {
		configure(w.m)
	}
	var x expectation
	x.before = m08.Dump(w.recv)
	x.setup = logText(w.m.Log)
	w.m.Log = nil
	if c.Cb != nil {
		w.named["CB"] = c.Cb.model(w, isReduce(c.Method))
	}
	args := make([]m08.Value, len(c.Args))
	for i, a := range c.Args {
		args[i] = w.val(a)
	}
	fn := m08.Methods[c.Method]
	if fn == nil {
		panic("c08: no model for method " + c.Method)
	}
	var t *m08.Throw
	func() {
		defer func() {
			if p := recover(); p != nil {
				if _, ok := p.(m08.TooLong); ok {
					x.tooLong = true
					return
				}
				panic(p)
			}
		}()
		t = m08.Try(func() { x.ret = m08.Ser(fn(w.m, m08.ObjV(w.recv), args)) })
	}()
	x.err = errSer(t)
	x.log = logText(w.m.Log)
	x.after = m08.Dump(w.recv)
	for i := range c.Xs {
		x.xs = append(x.xs, m08.Dump(w.named["X"+strconv.Itoa(i)]))
	}
	x.maxShrink = w.m.MaxShrink
	return x
}

func logText(l []string) string {
	if len(l) == 0 {
		return ""
	}
	return strings.Join(l, "\n") + "\n"
}

func sameSections(a, b []string) bool {
	if len(a) != len(b) {
		return false
	}
	for i := range a {
		if a[i] != b[i] {
			return false
		}
	}
	return true
}

var sectionNames = []string{"receiver before the call", "setup log", "return value", "thrown", "log", "receiver after the call", "X0 after the call", "X1 after the call"}

func diffSections(want, got []string) string {
	var b strings.Builder
	for i := range want {
		if i < len(got) && want[i] == got[i] {
			continue
		}
		g := "<missing>"
		if i < len(got) {
			g = show(got[i])
		}
		fmt.Fprintf(&b, "%s: ES5 gives %s, otto gives %s; ", sectionNames[i], show(want[i]), g)
	}
	return b.String()
}

func (c *methodCase) nontrivial() bool {
	if c.Env.restricted() || c.Cb.mutates() {
		return true
	}
	for _, a := range c.Args {
		if !(a.smallIndex() || (a.K == "ref" && a.S == "CB")) {
			return true
		}
	}
	return false
}

func (c *methodCase) classes(x expectation) []string {
	cl := []string{"method:" + c.Method, "recv:" + c.Recv.Kind}
	for _, v := range c.Recv.Elems {
		if v.hole() {
			cl = append(cl, "recv:holes")
			break
		}
	}
	for _, m := range c.Recv.Mods {
		cl = append(cl, "mod:"+m.Op)
	}
	if c.Recv.Kind == "object" {
		switch {
		case c.Recv.Len == nil:
			cl = append(cl, "len:missing")
		case c.Recv.Len.K == "n" && c.Recv.Len.smallIndex():
			cl = append(cl, "len:plain")
		default:
			cl = append(cl, "len:odd-"+c.Recv.Len.K)
		}
	}
	if x.err != "" {
		cl = append(cl, "throws:"+x.err)
	} else {
		cl = append(cl, "returns")
	}
	if c.Cb != nil {
		cl = append(cl, "cb:ret-"+c.Cb.Ret)
		if c.Cb.mutates() {
			cl = append(cl, "cb:mut-"+c.Cb.Mut)
		}
		if c.Cb.ThrowAt >= 0 {
			cl = append(cl, "cb:throws")
		}
	}
	for _, a := range c.Args {
		switch {
		case a.K == "ref" && (strings.HasPrefix(a.S, "V") || strings.HasPrefix(a.S, "T")):
			cl = append(cl, "arg:conversion-object")
		case a.K == "n" && !a.smallIndex():
			cl = append(cl, "arg:odd-number")
		case a.K == "s":
			cl = append(cl, "arg:string")
		case a.K == "u":
			cl = append(cl, "arg:undefined")
		}
	}
	if len(c.Args) == 0 {
		cl = append(cl, "arg:none")
	}
	return cl
}

func checkMethod(c methodCase) harness.Outcome {
	pure := c.predict(nil)
	o := harness.Outcome{Nontrivial: c.nontrivial(), Classes: c.classes(pure)}
	if pure.tooLong {
		o.Discard = "legitimately slow: length above 20000 or a walk over more than 30000 indices (DESIGN appendix B)"
		return o
	}
	if pure.maxShrink > slowShrink {
		o.Discard = "legitimately slow: a length assignment walks over more than 20000 indices (DESIGN appendix B)"
		return o
	}
	got, bad := runScript(c.script(), c.Env.fresh())
	if bad != "" {
		o.Fail = bad + "\nscript: " + c.script()
		return o
	}
	want := pure.sections()
	if sameSections(want, got) {
		return o
	}
	// ES5.1 ends concat/slice/splice without setting the result's length; practice and ES2015 set it. Either is accepted.
	literal := func(m *m08.Machine) { m.LiteralLength = true }
	if sameSections(c.predict(literal).sections(), got) {
		o.Classes = append(o.Classes, "result-length:letter-of-ES5.1")
		return o
	}
	// Known findings: compare modulo exactly the recorded distortions, and only when they matter for this case.
	var active []distortion
	for _, d := range distortions {
		if harness.Known(d.id) {
			active = append(active, d)
		}
	}
	if len(active) > 0 {
		all := func(m *m08.Machine) {
			for _, d := range active {
				d.set(m)
			}
		}
		dist := c.predict(all).sections()
		if !sameSections(dist, want) && sameSections(dist, got) {
			for _, d := range active {
				if !sameSections(c.predict(d.set).sections(), want) {
					o.Excluded = append(o.Excluded, d.id)
				}
			}
			if len(o.Excluded) == 0 { // only the combination differs
				for _, d := range active {
					o.Excluded = append(o.Excluded, d.id)
				}
			}
			return o
		}
	}
	o.Fail = fmt.Sprintf("Array.prototype.%s (ES5.1 15.4.4): %s\nscript: %s", c.Method, diffSections(want, got), c.script())
	return o
}

const slowShrink = 20000

// ---- generator ---------------------------------------------------------------------------------------------

var allMethods = []string{"toString", "join", "concat", "pop", "push", "reverse", "shift", "slice", "splice", "unshift",
	"indexOf", "lastIndexOf", "every", "some", "forEach", "map", "filter", "reduce", "reduceRight"}

func genElems(t *rapid.T, label string, max int, withObjs bool) []Val {
	n := rapid.IntRange(0, max).Draw(t, label+"-n")
	out := make([]Val, n)
	for i := range out {
		switch k := rapid.IntRange(0, 11).Draw(t, label+"-k"); {
		case k <= 2:
			out[i] = Val{K: "h"}
		case k == 3 && withObjs:
			out[i] = vref(rapid.SampledFrom([]string{"V1", "T1", "X0"}).Draw(t, label+"-obj"))
		default:
			out[i] = genElem(t, label)
		}
	}
	return out
}

var objLenOdd = []Val{
	vs("3"), vs(" 2 "), vs("0x3"), vs("abc"), vs(""), vs("1e1"),
	vn("2.7"), vn("-0"), vn("NaN"), vn("Infinity"), vn("-Infinity"), vn("4294967297"), vn("4294967298.5"), vn("-4294967294"), vn("-4294967293.5"), vn("8589934595"),
	{K: "l"}, {K: "t"}, {K: "f"}, vu(), vref("V1"), vref("V2"), vref("T1"), vref("O1"),
	vn("100"), vn("300"), vn("10000"),
}

func genEnv(t *rapid.T, forSort bool) Env {
	var e Env
	for i := 0; i < 3; i++ {
		e.VNums = append(e.VNums, rapid.SampledFrom([]string{"0", "1", "2", "3", "5", "-1", "-2", "1.5", "NaN", "Infinity", "-Infinity", "4294967297", "-0"}).Draw(t, "vnum"))
	}
	for i := 0; i < 2; i++ {
		e.TStrs = append(e.TStrs, rapid.SampledFrom([]string{"1", "2", "-1", "", "x", " 3 ", "-", "4294967298"}).Draw(t, "tstr"))
	}
	e.Xs = [][]Val{genElems(t, "x0", 4, false), genElems(t, "x1", 3, false)}
	r := &e.Recv
	r.Kind = rapid.SampledFrom([]string{"array", "array", "array", "object", "object"}).Draw(t, "kind")
	r.Elems = genElems(t, "elems", 8, !forSort)
	if r.Kind == "array" {
		r.Lit = rapid.Bool().Draw(t, "lit")
	} else {
		switch k := rapid.IntRange(0, 9).Draw(t, "len-kind"); {
		case k <= 3:
			l := vn(strconv.Itoa(len(r.Elems)))
			r.Len = &l
		case k <= 5:
			l := vn(strconv.Itoa(rapid.IntRange(0, len(r.Elems)+2).Draw(t, "len")))
			r.Len = &l
		case k == 6:
			r.Len = nil
		default:
			l := rapid.SampledFrom(objLenOdd).Draw(t, "len-odd")
			r.Len = &l
		}
	}
	if forSort {
		return e
	}
	if rapid.IntRange(0, 9).Draw(t, "join-kind") == 0 {
		r.Join = rapid.SampledFrom([]string{"fn", "str"}).Draw(t, "join")
	}
	nm := rapid.SampledFrom([]int{0, 0, 0, 0, 1, 1, 1, 2}).Draw(t, "nmods")
	for i := 0; i < nm; i++ {
		var m Mod
		ops := []string{"freezeElem", "ncElem", "nwLength", "freeze", "seal", "preventExt", "protoA", "protoO", "freezeElem", "ncElem", "protoA"}
		m.Op = ops[pickUniform(t, "mod", len(ops))]
		switch m.Op {
		case "freezeElem", "ncElem", "protoA", "protoO":
			m.I = rapid.IntRange(0, 9).Draw(t, "mod-i")
			v := genElem(t, "mod-v")
			m.V = &v
			if m.Op[0] == 'p' {
				m.NW = rapid.IntRange(0, 3).Draw(t, "mod-nw") == 0
			}
		}
		r.Mods = append(r.Mods, m)
	}
	return e
}

func genCb(t *rapid.T, reduce bool) *Cb {
	c := &Cb{MutAt: -1, ThrowAt: -1}
	if reduce {
		c.Ret = rapid.SampledFrom([]string{"cat", "cat", "acc", "v", "i", "u"}).Draw(t, "cb-ret")
	} else {
		c.Ret = rapid.SampledFrom([]string{"t", "f", "v", "v", "i", "u", "alt"}).Draw(t, "cb-ret")
	}
	if rapid.IntRange(0, 2).Draw(t, "cb-mutates") == 0 {
		c.MutAt = rapid.IntRange(0, 3).Draw(t, "cb-mutAt")
		c.Mut = rapid.SampledFrom([]string{"push", "pop", "delete", "length", "set"}).Draw(t, "cb-mut")
		c.MutI = rapid.IntRange(0, 9).Draw(t, "cb-mutI")
		v := genElem(t, "cb-mutV")
		c.MutV = &v
	}
	if rapid.IntRange(0, 5).Draw(t, "cb-throws") == 0 {
		c.ThrowAt = rapid.IntRange(0, 4).Draw(t, "cb-throwAt")
		c.Throw = rapid.SampledFrom([]string{"range", "val", "num"}).Draw(t, "cb-throw")
	}
	return c
}

// genIndexArg: half of the time an integer within one step of [-len, len] (where the clamping rules
// of 15.4.4.10/12/14/15 change branch), otherwise an odd argument.
func genIndexArg(t *rapid.T, label string, n int) Val {
	if rapid.Bool().Draw(t, label+"-near") {
		return vn(strconv.Itoa(rapid.IntRange(-n-1, n+1).Draw(t, label+"-rel")))
	}
	return genOdd(t, label)
}

// genSearchIn: mostly an element the receiver really holds (so that the position found matters).
func genSearchIn(t *rapid.T, elems []Val) Val {
	var present []Val
	for _, e := range elems {
		if !e.hole() {
			present = append(present, e)
		}
	}
	if len(present) > 0 && rapid.IntRange(0, 9).Draw(t, "search-present") < 6 {
		return present[rapid.IntRange(0, len(present)-1).Draw(t, "search-pos")]
	}
	return genSearch(t)
}

func genSearch(t *rapid.T) Val {
	if rapid.IntRange(0, 5).Draw(t, "search-ref") == 0 {
		return vref(rapid.SampledFrom([]string{"R", "X0", "V1", "T1"}).Draw(t, "search"))
	}
	return genElem(t, "search")
}

func genMethodCase(t *rapid.T) methodCase {
	var c methodCase
	c.Env = genEnv(t, false)
	c.Method = allMethods[pickUniform(t, "method", len(allMethods))]
	genCallArgs(t, &c)
	// long array-likes: only methods whose work does not build a result of that size
	if l := c.Recv.Len; c.Recv.Kind == "object" && l != nil && l.K == "n" && (l.N == "300" || l.N == "10000") && bigResult[c.Method] {
		c.Method = "indexOf"
		c.Args = []Val{genSearch(t)}
		c.Cb = nil
	}
	return c
}

// genCallArgs draws the argument list (and callback) for c.Method.
func genCallArgs(t *rapid.T, c *methodCase) {
	nargs := func(lo, hi int) int { return rapid.IntRange(lo, hi).Draw(t, "nargs") }
	switch c.Method {
	case "toString", "join":
		if nargs(0, 2) > 0 {
			c.Args = []Val{rapid.SampledFrom([]Val{vu(), vs(","), vs(""), vs("-"), vs("ab"), {K: "l"}, vn("0"), vref("T1"), vref("T2"), vref("V1"), vref("O1")}).Draw(t, "sep")}
		}
	case "concat":
		for i, n := 0, nargs(0, 3); i < n; i++ {
			if rapid.Bool().Draw(t, "concat-array") {
				c.Args = append(c.Args, vref(rapid.SampledFrom([]string{"X0", "X1", "R", "AP"}).Draw(t, "concat-ref")))
			} else {
				c.Args = append(c.Args, genElem(t, "concat-elem"))
			}
		}
	case "pop", "shift", "reverse":
		if nargs(0, 4) == 0 {
			c.Args = []Val{genElem(t, "junk")}
		}
	case "push", "unshift":
		for i, n := 0, nargs(0, 3); i < n; i++ {
			if rapid.IntRange(0, 7).Draw(t, "push-ref") == 0 {
				c.Args = append(c.Args, vref(rapid.SampledFrom([]string{"R", "X0"}).Draw(t, "push-refname")))
			} else {
				c.Args = append(c.Args, genElem(t, "item"))
			}
		}
	case "slice":
		for i, n := 0, nargs(0, 2); i < n; i++ {
			c.Args = append(c.Args, genIndexArg(t, "index", len(c.Recv.Elems)))
		}
	case "splice":
		c.Args = []Val{genIndexArg(t, "start", len(c.Recv.Elems)), genIndexArg(t, "deleteCount", len(c.Recv.Elems))}
		for i, n := 0, nargs(0, 3); i < n; i++ {
			c.Args = append(c.Args, genElem(t, "item"))
		}
	case "indexOf", "lastIndexOf":
		switch nargs(0, 5) {
		case 0:
		case 1, 2:
			c.Args = []Val{genSearchIn(t, c.Recv.Elems)}
		default:
			c.Args = []Val{genSearchIn(t, c.Recv.Elems), genIndexArg(t, "fromIndex", len(c.Recv.Elems))}
		}
	default: // callback methods
		reduce := isReduce(c.Method)
		if rapid.IntRange(0, 11).Draw(t, "noncallable") == 0 {
			c.Args = []Val{rapid.SampledFrom([]Val{vu(), {K: "l"}, vn("1"), vs("f"), vref("O1"), vref("X0")}).Draw(t, "notfn")}
			if rapid.Bool().Draw(t, "second") {
				c.Args = append(c.Args, genElem(t, "second-arg"))
			}
			break
		}
		c.Cb = genCb(t, reduce)
		c.Args = []Val{vref("CB")}
		if rapid.Bool().Draw(t, "second") {
			if reduce {
				c.Args = append(c.Args, genElem(t, "initial"))
			} else {
				c.Args = append(c.Args, rapid.SampledFrom([]Val{vu(), {K: "l"}, vref("O1"), vref("R"), vref("X0")}).Draw(t, "thisArg"))
			}
		}
	}
}

var methodFacet = harness.Register(&harness.Facet[methodCase]{
	Name:     "methods",
	Rule:     "rapid: receiver = array (literal or built by assignment) or plain array-like object, ≤ 8 elements from a value pool with holes, object length from {exact, nearby, missing, odd pool: numeric strings, fractions, NaN, ±Infinity, values ≥ 2^32, negative values wrapping below 10^4, booleans, null, valueOf/toString objects, 100/300/10000}; 0–2 restrictions (frozen element, non-configurable element, non-writable length, freeze, seal, preventExtensions, index inherited from Array.prototype/Object.prototype, writable or not; fresh runtime for those); one 15.4.4 method (all except sort) with arguments from the odd pool (negative, fractional, NaN, ±Infinity, ≥ length, 2^31, 2^32, 2^53, undefined, omitted, numeric strings, logging valueOf/toString objects); callbacks log (arguments.length, value, typeof index, index, receiver identity, this), may mutate the receiver (push/pop/delete/length=/set) at a chosen invocation, throw, or return odd truthiness; compared with the lib/m08 transcription of ES5.1 15.4.4: receiver before, return value (own properties, attributes, holes), thrown class/value, conversion+callback log, receiver after (every own property with attributes, extensibility, prototype), argument arrays after. non-trivial = receiver has a hole/inherited index/restricted attribute/odd length, or an argument is not a small non-negative integer, or the callback mutates; distinct by the whole case",
	Quick:    9000,
	Thorough: 40000,
	Gen:      genMethodCase,
	Check:    checkMethod,
})

func TestMethods(t *testing.T) { methodFacet.Run(t) }
