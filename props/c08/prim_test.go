package c08

import (
	"fmt"
	"strconv"
	"strings"
	"testing"

	"pgregory.net/rapid"

	"verif/lib/harness"
	"verif/lib/m08"
)

// ---- facet: primitive this values (ToObject(this), ES5.1 15.4.4.x step 1) ----------------------------------------

// Plant is `<Target>.prototype[Key] = V` executed before the call (Target: String Number Boolean).
type Plant struct {
	Target string `json:"target"`
	Key    string `json:"key"` // "length" or an index
	V      Val    `json:"v"`
}

type primCase struct {
	Env            // tagged objects, the (unused) array R that callbacks may mutate, X0/X1
	Prim   Val     `json:"prim"` // s, n, t or f
	Plants []Plant `json:"plants,omitempty"`
	Method string  `json:"method"`
	Args   []Val   `json:"args"`
	Cb     *Cb     `json:"cb,omitempty"`
}

func (c *primCase) script() string {
	var b strings.Builder
	b.WriteString(c.Env.setupJS())
	for _, p := range c.Plants {
		fmt.Fprintf(&b, "%s.prototype[%s]=%s;", p.Target, harness.JSString(p.Key), p.V.js())
	}
	if c.Cb != nil {
		b.WriteString(c.Cb.js(isReduce(c.Method)))
	}
	args := []string{c.Prim.js()}
	for _, a := range c.Args {
		args = append(args, a.js())
	}
	fmt.Fprintf(&b, "__log='';var ret='',err='';try{ret=__S(Array.prototype.%s.call(%s))}catch(e){err=__E(e)}", c.Method, strings.Join(args, ","))
	b.WriteString(joinSections("ret", "err", "__log", "__D(R)"))
	return b.String()
}

func (c *primCase) predict(configure func(m *m08.Machine)) (sections []string, tooLong bool) {
	w := c.Env.build()
	m := w.m
	if configure != nil {
		configure(m)
	}
	for _, p := range c.Plants {
		target := map[string]*m08.Object{"String": m.StringProto, "Number": m.NumberProto, "Boolean": m.BooleanProto}[p.Target]
		m.Put(target, p.Key, w.val(p.V), false)
	}
	if c.Cb != nil {
		w.named["CB"] = c.Cb.model(w, isReduce(c.Method))
	}
	args := make([]m08.Value, len(c.Args))
	for i, a := range c.Args {
		args[i] = w.val(a)
	}
	m.Log = nil
	ret := ""
	var t *m08.Throw
	func() {
		defer func() {
			if p := recover(); p != nil {
				if _, ok := p.(m08.TooLong); ok {
					tooLong = true
					return
				}
				panic(p)
			}
		}()
		t = m08.Try(func() { ret = m08.Ser(m08.Methods[c.Method](m, w.val(c.Prim), args)) })
	}()
	return []string{ret, errSer(t), logText(m.Log), m08.Dump(w.recv)}, tooLong
}

func checkPrim(c primCase) harness.Outcome {
	o := harness.Outcome{Nontrivial: true, Classes: []string{"method:" + c.Method, "this:" + c.Prim.K}}
	if len(c.Plants) > 0 {
		o.Classes = append(o.Classes, "planted-prototype")
	}
	want, tooLong := c.predict(nil)
	if tooLong {
		o.Discard = "legitimately slow: length above 20000"
		return o
	}
	if strings.Contains(want[2], "cb:") {
		o.Classes = append(o.Classes, "callback-invoked")
	}
	if want[1] != "" {
		o.Classes = append(o.Classes, "throws:"+want[1])
	}
	got, bad := runScript(c.script(), len(c.Plants) > 0)
	if bad != "" {
		o.Fail = bad + "\nscript: " + c.script()
		return o
	}
	if !sameSections(want, got) {
		// known findings: modulo the recorded distortions, only where they change the prediction
		var active []distortion
		for _, d := range distortions {
			if harness.Known(d.id) {
				active = append(active, d)
			}
		}
		if len(active) > 0 {
			dist, _ := c.predict(func(m *m08.Machine) {
				for _, d := range active {
					d.set(m)
				}
			})
			if !sameSections(dist, want) && sameSections(dist, got) {
				for _, d := range active {
					if one, _ := c.predict(d.set); !sameSections(one, want) {
						o.Excluded = append(o.Excluded, d.id)
					}
				}
				return o
			}
		}
		names := []string{"return value", "thrown", "log (callbacks see typeof/identity/rendering of ToObject(this))", "array R"}
		var b strings.Builder
		for i := range want {
			if i >= len(got) || want[i] != got[i] {
				g := "<missing>"
				if i < len(got) {
					g = show(got[i])
				}
				fmt.Fprintf(&b, "%s: ES5 gives %s, otto gives %s; ", names[i], show(want[i]), g)
			}
		}
		o.Fail = fmt.Sprintf("Array.prototype.%s on a primitive this value (ES5.1 15.4.4 step 1: O = ToObject(this); 15.5.5 String objects): %s\nscript: %s", c.Method, b.String(), c.script())
	}
	return o
}

func genPrim(t *rapid.T) primCase {
	var c primCase
	c.Env = genEnv(t, true)
	c.Recv = Recv{Kind: "array", Elems: []Val{vn("1"), vn("2")}}
	var chars []Val
	switch rapid.IntRange(0, 5).Draw(t, "prim-kind") {
	case 0:
		c.Prim = vn(rapid.SampledFrom([]string{"5", "0", "-1", "NaN", "1.5"}).Draw(t, "num"))
	case 1:
		c.Prim = Val{K: rapid.SampledFrom([]string{"t", "f"}).Draw(t, "bool")}
	default:
		n := rapid.IntRange(0, 5).Draw(t, "strlen")
		var sb strings.Builder
		for i := 0; i < n; i++ {
			ch := rapid.SampledFrom([]string{"a", "b", "1", "2", " ", "x"}).Draw(t, "ch")
			sb.WriteString(ch)
			chars = append(chars, vs(ch))
		}
		c.Prim = vs(sb.String())
	}
	target := map[string]string{"n": "Number", "t": "Boolean", "f": "Boolean", "s": "String"}[c.Prim.K]
	plant := c.Prim.K != "s" && rapid.IntRange(0, 3).Draw(t, "plant") > 0 || c.Prim.K == "s" && rapid.IntRange(0, 4).Draw(t, "plant") == 0
	if plant {
		if c.Prim.K != "s" || rapid.Bool().Draw(t, "plant-length") {
			c.Plants = append(c.Plants, Plant{Target: target, Key: "length", V: rapid.SampledFrom([]Val{vn("1"), vn("2"), vn("3"), vs("2"), vn("2.5")}).Draw(t, "plant-len")})
		}
		for i, n := 0, rapid.IntRange(1, 3).Draw(t, "plant-n"); i < n; i++ {
			v := genElem(t, "plant-v")
			c.Plants = append(c.Plants, Plant{Target: target, Key: strconv.Itoa(rapid.IntRange(0, 5).Draw(t, "plant-i")), V: v})
			if c.Prim.K != "s" {
				chars = append(chars, v)
			}
		}
	}
	tmp := methodCase{Env: Env{Recv: Recv{Kind: "array", Elems: chars}}}
	// iteration methods twice as often: their callback receives ToObject(this)
	pool := append(append([]string{}, allMethods...), "every", "some", "forEach", "map", "filter", "reduce", "reduceRight")
	tmp.Method = pool[pickUniform(t, "method", len(pool))]
	genCallArgs(t, &tmp)
	c.Method, c.Args, c.Cb = tmp.Method, tmp.Args, tmp.Cb
	return c
}

var primFacet = harness.Register(&harness.Facet[primCase]{
	Name:     "primitive-this",
	Rule:     "rapid: Array.prototype.<method>.call(primitive, …) with the receiver a primitive string of 0–5 characters (own index properties and length of the String wrapper are read-only), a number or a boolean (with length and index properties planted on Number.prototype/Boolean.prototype/String.prototype on a fresh runtime so that the walk is not empty), every 15.4.4 method except sort, arguments and callbacks as in the methods facet; the callback log records typeof, identity across visits and rendering of the object argument, which must be the wrapper ToObject(this) — one object per call — never the primitive; return value, thrown class, log compared with lib/m08; every case non-trivial; distinct by the whole case",
	Quick:    3000,
	Thorough: 10000,
	Gen:      genPrim,
	Check:    checkPrim,
})

func TestPrimitiveThis(t *testing.T) { primFacet.Run(t) }
