package c08

import (
	"testing"

	"verif/lib/harness"
)

// ---- exhaustive facet: "argument not present" versus "undefined passed explicitly" --------------------------------
//
// ES5.1 15.4.4 distinguishes the two in several places (lastIndexOf/indexOf fromIndex, reduce/reduceRight
// initialValue, push/unshift/concat/splice items, join separator and slice end where undefined means default)
// and must NOT distinguish them elsewhere. The product method × argument-list length × {value, undefined written as
// `undefined`, `void 0`, an unset variable} is enumerated on fixed receivers, so no seed can miss the family.

func uVariants() []Val { return []Val{{K: "u"}, {K: "u", N: "void"}, {K: "u", N: "var"}} }

// optionalParams: per method, the values tried at each formal (and first extra) argument position.
var optionalParams = map[string][][]Val{
	"toString":    {{vs("-")}},
	"join":        {{vs("-"), {K: "l"}}},
	"concat":      {{vref("X0"), vs("z")}, {vs("y")}},
	"pop":         {{vs("z")}},
	"shift":       {{vs("z")}},
	"reverse":     {{vs("z")}},
	"push":        {{vs("z")}, {vs("y")}},
	"unshift":     {{vs("z")}, {vs("y")}},
	"slice":       {{vn("1"), vn("-2")}, {vn("3"), vn("-1")}},
	"splice":      {{vn("1"), vn("-2")}, {vn("1"), vn("0")}, {vs("z")}, {vs("y")}},
	"indexOf":     {{vs("a"), vn("1")}, {vn("2"), vn("-2")}},
	"lastIndexOf": {{vs("a"), vn("1")}, {vn("2"), vn("-2")}},
	"every":       {{vref("CB")}, {vref("O1")}},
	"some":        {{vref("CB")}, {vref("O1")}},
	"forEach":     {{vref("CB")}, {vref("O1")}},
	"map":         {{vref("CB")}, {vref("O1")}},
	"filter":      {{vref("CB")}, {vref("O1")}},
	"reduce":      {{vref("CB")}, {vs("i")}},
	"reduceRight": {{vref("CB")}, {vs("i")}},
}

// argTuples enumerates every argument list of length 0..n: inner positions take each listed value or
// `undefined`; the last position takes each listed value or undefined in its three spellings.
func argTuples(params [][]Val, minLen int) [][]Val {
	var out [][]Val
	var rec func(prefix []Val, pos, length int)
	rec = func(prefix []Val, pos, length int) {
		if pos == length {
			out = append(out, append([]Val(nil), prefix...))
			return
		}
		vals := append([]Val(nil), params[pos]...)
		if pos == length-1 {
			vals = append(vals, uVariants()...)
		} else {
			vals = append(vals, vu())
		}
		for _, v := range vals {
			rec(append(prefix, v), pos+1, length)
		}
	}
	for length := minLen; length <= len(params); length++ {
		rec(nil, 0, length)
	}
	return out
}

var optionalElems = []Val{vs("a"), vu(), vn("1"), vs("a"), {K: "h"}, vu(), vs("b")}

func optionalReceivers() []Recv {
	l7 := vn("7")
	return []Recv{
		{Kind: "array", Elems: optionalElems},
		{Kind: "object", Elems: optionalElems, Len: &l7},
		{Kind: "array", Elems: []Val{{K: "h"}, vs("a"), vs("a")}, Lit: true},
		{Kind: "array", Elems: nil},
	}
}

func optionalCb(method string) *Cb {
	c := &Cb{Ret: "v", MutAt: -1, ThrowAt: -1}
	if isReduce(method) {
		c.Ret = "cat"
	}
	return c
}

func usesCb(args []Val) bool {
	for _, a := range args {
		if a.K == "ref" && a.S == "CB" {
			return true
		}
	}
	return false
}

var optionalFacet = harness.Register(&harness.Facet[methodCase]{
	Name:  "optional-arguments",
	Rule:  "complete product: every 15.4.4 method except sort × every argument-list length from 0 to one past its formal parameters (splice from 2: splice(start) alone is excluded, appendix B) × at each position a representative value or undefined, the last position also spelled `void 0` and as an unset variable × four receivers (array with holes/undefined/duplicates, the same as array-like object, short array with a leading hole, empty array); decides 'argument not present' versus 'undefined passed' (fromIndex, initialValue, items, separator, end, deleteCount, thisArg, callbackfn) against lib/m08; every case non-trivial; distinct by (receiver, method, argument list)",
	Check: checkMethod,
})

func TestOptionalArguments(t *testing.T) {
	var cases []methodCase
	for _, recv := range optionalReceivers() {
		for _, method := range allMethods {
			minLen := 0
			if method == "splice" {
				minLen = 2
			}
			for _, args := range argTuples(optionalParams[method], minLen) {
				c := methodCase{Method: method, Args: args}
				c.Env = Env{VNums: []string{"1", "2", "3"}, TStrs: []string{"1", "2"}, Recv: recv, Xs: [][]Val{{vs("p"), {K: "h"}, vu()}, {}}}
				if usesCb(args) {
					c.Cb = optionalCb(method)
				}
				cases = append(cases, c)
			}
		}
	}
	harness.SetExhaustive(optionalFacet.Name)
	optionalFacet.Each(t, cases)
}

var optionalPrimFacet = harness.Register(&harness.Facet[primCase]{
	Name:  "optional-arguments-primitive",
	Rule:  "complete product as in optional-arguments, with the primitive string \"a1ab\" and the number 5 (Number.prototype.length = 3, indices planted) as this value; compared with lib/m08 (return value, thrown class, log); every case non-trivial",
	Check: checkPrim,
})

func TestOptionalArgumentsPrimitive(t *testing.T) {
	var cases []primCase
	for _, prim := range []Val{vs("a1ab"), vn("5")} {
		for _, method := range allMethods {
			minLen := 0
			if method == "splice" {
				minLen = 2
			}
			for _, args := range argTuples(optionalParams[method], minLen) {
				c := primCase{Prim: prim, Method: method, Args: args}
				c.Env = Env{VNums: []string{"1", "2", "3"}, TStrs: []string{"1", "2"}, Recv: Recv{Kind: "array", Elems: []Val{vn("1")}}, Xs: [][]Val{{vs("p"), {K: "h"}, vu()}, {}}}
				if prim.K == "n" {
					c.Plants = []Plant{{Target: "Number", Key: "length", V: vn("3")}, {Target: "Number", Key: "0", V: vs("a")}, {Target: "Number", Key: "2", V: vs("a")}}
				}
				if usesCb(args) {
					c.Cb = optionalCb(method)
				}
				cases = append(cases, c)
			}
		}
	}
	harness.SetExhaustive(optionalPrimFacet.Name)
	optionalPrimFacet.Each(t, cases)
}
