// Package c08 decides property C08: arrays keep the length invariant and the Array methods follow
// ES5.1 15.4. The oracle is the model in verif/lib/m08 (15.4.4 transcribed over a small object
// model); otto is driven through generated scripts whose observations (return value with holes,
// receiver property by property with attributes, length, callback log, thrown class) are rendered
// by a small JS prelude in the same canonical form the model renders its own state.
package c08

import (
	"fmt"
	"math"
	"strconv"
	"strings"
	"testing"

	"github.com/robertkrimen/otto"
	"pgregory.net/rapid"

	"verif/lib/harness"
	"verif/lib/m08"
)

func TestMain(m *testing.M) { harness.Main(m, "C08") }

// ---- values of a case (JSON-serialisable) ------------------------------------------------------------

// Val is one JS value of a generated case.
//
//	k: u undefined, l null, t true, f false, n number (N = exact literal), s string (S),
//	   h hole (element lists only), ref (S = name of a case object: O1 O2 V1..V3 T1 T2 R X0 X1 CB)
type Val struct {
	K string `json:"k"`
	N string `json:"n,omitempty"`
	S string `json:"s,omitempty"`
}

func vu() Val            { return Val{K: "u"} }
func vn(l string) Val    { return Val{K: "n", N: l} }
func vs(s string) Val    { return Val{K: "s", S: s} }
func vref(s string) Val  { return Val{K: "ref", S: s} }
func (v Val) hole() bool { return v.K == "h" }

func parseLit(l string) float64 {
	switch l {
	case "NaN":
		return math.NaN()
	case "Infinity":
		return math.Inf(1)
	case "-Infinity":
		return math.Inf(-1)
	case "-0":
		return math.Copysign(0, -1)
	}
	f, err := strconv.ParseFloat(l, 64)
	if err != nil {
		panic("c08: bad numeric literal " + l)
	}
	return f
}

// js renders the value as an ES5 expression.
func (v Val) js() string {
	switch v.K {
	case "u":
		switch v.N { // three ways of passing undefined explicitly
		case "void":
			return "void 0"
		case "var":
			return "__U"
		}
		return "undefined"
	case "l":
		return "null"
	case "t":
		return "true"
	case "f":
		return "false"
	case "n":
		if strings.HasPrefix(v.N, "-") {
			return "(" + v.N + ")"
		}
		return v.N
	case "s":
		return harness.JSString(v.S)
	case "ref":
		switch v.S {
		case "AP":
			return "Array.prototype"
		case "OP":
			return "Object.prototype"
		case "G":
			return "__G"
		}
		return v.S
	}
	panic("c08: cannot render value kind " + v.K)
}

// smallIndex: the value is a plain non-negative integer literal below 10 (the "trivial" argument shape).
func (v Val) smallIndex() bool {
	if v.K != "n" {
		return false
	}
	f := parseLit(v.N)
	return f >= 0 && f < 10 && f == math.Trunc(f) && !(f == 0 && math.Signbit(f))
}

// ---- pools ---------------------------------------------------------------------------------------------

var elemPool = []Val{
	vu(), {K: "l"}, {K: "t"}, {K: "f"},
	vn("0"), vn("-0"), vn("1"), vn("2"), vn("3"), vn("NaN"), vn("1.5"), vn("-1"), vn("10"),
	vs("a"), vs("b"), vs(""), vs("1"), vs("2"), vs("10"),
	vref("O1"), vref("O2"),
}

// oddNumbers: the odd index/length arguments of DESIGN §3.
var oddNumbers = []string{
	"-Infinity", "-4294967295", "-4294967294", "-9", "-3", "-2", "-1", "-0.5", "-0", "0", "0.5", "1", "1.5", "2", "2.7", "3", "4", "5", "7", "8", "9", "10",
	"2147483648", "4294967295", "4294967296", "4294967297", "4294967298.5", "9007199254740992", "1e21", "Infinity", "NaN",
}

var oddStrings = []string{"1", " 2 ", "-1", "abc", "", "1e1", "0x2", "Infinity", "3.9", "-0", "01", "+2"}

// pickUniform draws an index in [0,n) without rapid's bias towards small values (the drawn word
// is mixed before reduction), so that every method / restriction gets an equal share.
func pickUniform(t *rapid.T, label string, n int) int {
	x := uint64(rapid.Uint32().Draw(t, label))
	x = (x + 0x9E3779B9) * 0xBF58476D1CE4E5B9
	x ^= x >> 29
	x *= 0x94D049BB133111EB
	x ^= x >> 32
	return int(x % uint64(n))
}

func genElem(t *rapid.T, label string) Val {
	return rapid.SampledFrom(elemPool).Draw(t, label)
}

// genOdd draws an odd index-like argument.
func genOdd(t *rapid.T, label string) Val {
	switch rapid.IntRange(0, 9).Draw(t, label+"-kind") {
	case 0, 1, 2:
		return vn(strconv.Itoa(rapid.IntRange(0, 9).Draw(t, label)))
	case 3, 4, 5:
		return vn(rapid.SampledFrom(oddNumbers).Draw(t, label))
	case 6:
		return vs(rapid.SampledFrom(oddStrings).Draw(t, label))
	case 7:
		return rapid.SampledFrom([]Val{vu(), {K: "l"}, {K: "t"}, {K: "f"}, vref("O1")}).Draw(t, label)
	case 8:
		return vref(rapid.SampledFrom([]string{"V1", "V2", "V3"}).Draw(t, label))
	}
	return vref(rapid.SampledFrom([]string{"T1", "T2"}).Draw(t, label))
}

// ---- environment of a case: tagged objects, receiver, extra arrays -----------------------------------------

// Mod is one restriction applied to the receiver (or to a prototype) before the call.
//
//	freezeElem: index I := V, non-writable, non-configurable     ncElem: index I := V, writable, non-configurable
//	nwLength: length non-writable     freeze / seal / preventExt: the Object.* function on the receiver
//	protoA / protoO: Array.prototype / Object.prototype gets index I := V (NW: non-writable)
type Mod struct {
	Op string `json:"op"`
	I  int    `json:"i,omitempty"`
	V  *Val   `json:"v,omitempty"`
	NW bool   `json:"nw,omitempty"`
}

// Recv describes the receiver: an array, or a plain object with index properties and a length.
type Recv struct {
	Kind  string `json:"kind"` // array | object
	Lit   bool   `json:"lit,omitempty"`
	Elems []Val  `json:"elems"`
	Len   *Val   `json:"len,omitempty"`  // object only; nil = no length property
	Join  string `json:"join,omitempty"` // "" | fn (own callable join) | str (own non-callable join)
	Mods  []Mod  `json:"mods,omitempty"`
}

// Env is everything a script refers to by name.
type Env struct {
	VNums []string `json:"vnums,omitempty"` // V1..: objects whose valueOf logs and returns this number
	TStrs []string `json:"tstrs,omitempty"` // T1..: objects whose toString logs and returns this string
	Recv  Recv     `json:"recv"`
	Xs    [][]Val  `json:"xs,omitempty"` // X0, X1: further arrays (concat arguments)
}

func (e *Env) fresh() bool {
	for _, m := range e.Recv.Mods {
		if m.Op == "protoA" || m.Op == "protoO" {
			return true
		}
	}
	return false
}

// restricted: the receiver has a hole, an inherited index or a restricted attribute (non-triviality rule).
func (e *Env) restricted() bool {
	if len(e.Recv.Mods) > 0 || e.Recv.Join != "" {
		return true
	}
	for _, v := range e.Recv.Elems {
		if v.hole() {
			return true
		}
	}
	if e.Recv.Kind == "object" && (e.Recv.Len == nil || !e.Recv.Len.smallIndex()) {
		return true
	}
	return false
}

func elemsJS(name string, elems []Val, b *strings.Builder) {
	for i, v := range elems {
		if !v.hole() {
			fmt.Fprintf(b, "%s[%d]=%s;", name, i, v.js())
		}
	}
}

func arrayJS(name string, elems []Val, lit bool, b *strings.Builder) {
	if lit {
		fmt.Fprintf(b, "var %s=[", name)
		for i, v := range elems {
			if !v.hole() {
				b.WriteString(v.js())
			}
			if i < len(elems)-1 || v.hole() {
				b.WriteByte(',')
			}
		}
		b.WriteString("];")
		return
	}
	fmt.Fprintf(b, "var %s=[];", name)
	if len(elems) > 0 {
		fmt.Fprintf(b, "%s.length=%d;", name, len(elems))
	}
	elemsJS(name, elems, b)
}

func boolJS(b bool) string {
	if b {
		return "true"
	}
	return "false"
}

// setupJS declares the case objects and registers their identity tags.
func (e *Env) setupJS() string {
	var b strings.Builder
	b.WriteString("__reset();var __U,O1={},O2={};__reg(O1,'O1');__reg(O2,'O2');")
	for i, n := range e.VNums {
		fmt.Fprintf(&b, "var V%d={valueOf:function(){L('V%d');return %s}};__reg(V%d,'V%d');", i+1, i+1, vn(n).js(), i+1, i+1)
	}
	for i, s := range e.TStrs {
		fmt.Fprintf(&b, "var T%d={toString:function(){L('T%d');return %s}};__reg(T%d,'T%d');", i+1, i+1, harness.JSString(s), i+1, i+1)
	}
	for i, x := range e.Xs {
		arrayJS("X"+strconv.Itoa(i), x, false, &b)
		fmt.Fprintf(&b, "__reg(X%d,'X%d');", i, i)
	}
	r := e.Recv
	if r.Kind == "array" {
		arrayJS("R", r.Elems, r.Lit, &b)
	} else {
		b.WriteString("var R={};")
		elemsJS("R", r.Elems, &b)
		if r.Len != nil {
			fmt.Fprintf(&b, "R.length=%s;", r.Len.js())
		}
	}
	b.WriteString("__reg(R,'R');")
	switch r.Join {
	case "fn":
		b.WriteString("var JF=function(){L('join:'+arguments.length+':'+(arguments.length>0?__S(arguments[0]):'-')+':'+__S(this));return 'J'};__reg(JF,'JF');R.join=JF;")
	case "str":
		b.WriteString("R.join='nojoin';")
	}
	for _, m := range r.Mods {
		b.WriteString("try{")
		switch m.Op {
		case "freezeElem":
			fmt.Fprintf(&b, "Object.defineProperty(R,'%d',{value:%s,writable:false,enumerable:true,configurable:false})", m.I, m.V.js())
		case "ncElem":
			fmt.Fprintf(&b, "Object.defineProperty(R,'%d',{value:%s,writable:true,enumerable:true,configurable:false})", m.I, m.V.js())
		case "nwLength":
			b.WriteString("Object.defineProperty(R,'length',{writable:false})")
		case "freeze":
			b.WriteString("Object.freeze(R)")
		case "seal":
			b.WriteString("Object.seal(R)")
		case "preventExt":
			b.WriteString("Object.preventExtensions(R)")
		case "protoA":
			fmt.Fprintf(&b, "Object.defineProperty(Array.prototype,'%d',{value:%s,writable:%s,enumerable:true,configurable:true})", m.I, m.V.js(), boolJS(!m.NW))
		case "protoO":
			fmt.Fprintf(&b, "Object.defineProperty(Object.prototype,'%d',{value:%s,writable:%s,enumerable:true,configurable:true})", m.I, m.V.js(), boolJS(!m.NW))
		default:
			panic("c08: unknown mod " + m.Op)
		}
		b.WriteString("}catch(e){L('setup:'+__E(e))}")
	}
	return b.String()
}

// world is the model side of an Env.
type world struct {
	m     *m08.Machine
	named map[string]*m08.Object
	recv  *m08.Object
}

func (w *world) val(v Val) m08.Value {
	switch v.K {
	case "u":
		return m08.Undefined
	case "l":
		return m08.NullV()
	case "t":
		return m08.BoolV(true)
	case "f":
		return m08.BoolV(false)
	case "n":
		return m08.NumV(parseLit(v.N))
	case "s":
		return m08.StrV(v.S)
	case "ref":
		o := w.named[v.S]
		if o == nil {
			panic("c08: case refers to unknown object " + v.S)
		}
		return m08.ObjV(o)
	}
	panic("c08: cannot model value kind " + v.K)
}

func (w *world) fill(o *m08.Object, elems []Val) {
	for i, v := range elems {
		if !v.hole() {
			w.m.Put(o, strconv.Itoa(i), w.val(v), false)
		}
	}
}

func (w *world) array(name string, elems []Val) *m08.Object {
	a := w.m.NewArray(0)
	a.Name = name
	w.named[name] = a
	if len(elems) > 0 {
		w.m.Put(a, "length", m08.NumV(float64(len(elems))), false)
	}
	w.fill(a, elems)
	return a
}

func bp(b bool) *bool { return &b }

// build creates the model world of the environment (same statements, same order as setupJS).
func (e *Env) build() *world {
	m := m08.NewMachine()
	w := &world{m: m, named: map[string]*m08.Object{"G": m.Global, "AP": m.ArrayProto, "OP": m.ObjectProto}}
	for _, n := range []string{"O1", "O2"} {
		o := m.NewObject()
		o.Name = n
		w.named[n] = o
	}
	for i, n := range e.VNums {
		name := "V" + strconv.Itoa(i+1)
		num := parseLit(n)
		o := m.NewObject()
		o.Name = name
		m.Put(o, "valueOf", m08.ObjV(m.NewFunction(name+".valueOf", func(m *m08.Machine, _ m08.Value, _ []m08.Value) m08.Value {
			m.L(name)
			return m08.NumV(num)
		})), false)
		w.named[name] = o
	}
	for i, s := range e.TStrs {
		name := "T" + strconv.Itoa(i+1)
		str := s
		o := m.NewObject()
		o.Name = name
		m.Put(o, "toString", m08.ObjV(m.NewFunction(name+".toString", func(m *m08.Machine, _ m08.Value, _ []m08.Value) m08.Value {
			m.L(name)
			return m08.StrV(str)
		})), false)
		w.named[name] = o
	}
	for i, x := range e.Xs {
		w.array("X"+strconv.Itoa(i), x)
	}
	r := e.Recv
	if r.Kind == "array" {
		w.recv = w.array("R", r.Elems)
	} else {
		w.recv = m.NewObject()
		w.recv.Name = "R"
		w.named["R"] = w.recv
		w.fill(w.recv, r.Elems)
		if r.Len != nil {
			m.Put(w.recv, "length", w.val(*r.Len), false)
		}
	}
	switch r.Join {
	case "fn":
		jf := m.NewFunction("JF", func(m *m08.Machine, this m08.Value, args []m08.Value) m08.Value {
			a0 := "-" // arguments[0] of an empty arguments object would be looked up on Object.prototype
			if len(args) > 0 {
				a0 = m08.Ser(args[0])
			}
			m.L(fmt.Sprintf("join:%d:%s:%s", len(args), a0, m08.Ser(this)))
			return m08.StrV("J")
		})
		w.named["JF"] = jf
		m.Put(w.recv, "join", m08.ObjV(jf), false)
	case "str":
		m.Put(w.recv, "join", m08.StrV("nojoin"), false)
	}
	for _, md := range r.Mods {
		md := md
		t := m08.Try(func() {
			switch md.Op {
			case "freezeElem":
				v := w.val(*md.V)
				m.DefineOwnProperty(w.recv, strconv.Itoa(md.I), m08.Desc{V: &v, W: bp(false), E: bp(true), C: bp(false)}, true)
			case "ncElem":
				v := w.val(*md.V)
				m.DefineOwnProperty(w.recv, strconv.Itoa(md.I), m08.Desc{V: &v, W: bp(true), E: bp(true), C: bp(false)}, true)
			case "nwLength":
				m.DefineOwnProperty(w.recv, "length", m08.Desc{W: bp(false)}, true)
			case "freeze":
				m.Freeze(w.recv)
			case "seal":
				m.Seal(w.recv)
			case "preventExt":
				w.recv.Ext = false
			case "protoA":
				v := w.val(*md.V)
				m.DefineOwnProperty(m.ArrayProto, strconv.Itoa(md.I), m08.Desc{V: &v, W: bp(!md.NW), E: bp(true), C: bp(true)}, true)
			case "protoO":
				v := w.val(*md.V)
				m.DefineOwnProperty(m.ObjectProto, strconv.Itoa(md.I), m08.Desc{V: &v, W: bp(!md.NW), E: bp(true), C: bp(true)}, true)
			}
		})
		if t != nil {
			m.L("setup:" + errSer(t))
		}
	}
	return w
}

func errSer(t *m08.Throw) string {
	if t == nil {
		return ""
	}
	if t.Class != "" {
		return "E:" + t.Class
	}
	return "T:" + m08.Ser(t.V)
}

// ---- otto side ---------------------------------------------------------------------------------------------

// prelude: identity registry, log, canonical rendering. It uses no Array.prototype method and never
// writes an index property (inherited indices may be planted on the prototypes by a case).
const prelude = `var __ido={},__idn={},__idc=0,__log="",__G=this;
function __reg(o,n){__ido["k"+__idc]=o;__idn["k"+__idc]=n;__idc++}
function __reset(){__ido={};__idn={};__idc=0;__log="";__reg(__G,"G");__reg(Array.prototype,"AP");__reg(Object.prototype,"OP");__reg(Function.prototype,"FP")}
function L(s){__log+=s+"\n"}
function __T(v){for(var i=0;i<__idc;i++){if(__ido["k"+i]===v)return __idn["k"+i]}return null}
function __S(v){
 if(v===undefined)return "u";if(v===null)return "l";if(v===true)return "t";if(v===false)return "f";
 var t=typeof v;
 if(t==="number")return (v===0&&1/v<0)?"n-0":"n"+String(v);
 if(t==="string")return "s<"+v+">";
 var n=__T(v);if(n!==null)return n;
 var c=Object.prototype.toString.call(v);
 if(c==="[object Array]")return "A{"+__D(v)+"}";
 return "?"+c.substring(8,c.length-1)}
function __D(o){
 var names=Object.getOwnPropertyNames(o),n=names.length,out="",last=null;
 for(var c=0;c<n;c++){
  var best=null;
  for(var i=0;i<n;i++){var k=names[i];if((last===null||k>last)&&(best===null||k<best))best=k}
  if(best===null)break;
  last=best;
  var d=Object.getOwnPropertyDescriptor(o,best);
  out+=best+"="+(d.writable?"w":"-")+(d.enumerable?"e":"-")+(d.configurable?"c":"-")+__S(d.value)+";"}
 var p=Object.getPrototypeOf(o);
 return out+(Object.isExtensible(o)?"ext":"noext")+";proto:"+(p===null?"null":(__T(p)===null?"?":__T(p)))}
function __E(e){return (e instanceof Error)?"E:"+e.name:"T:"+__S(e)}
`

var (
	sharedVM   *otto.Otto
	sharedUses int
)

func newVM() *otto.Otto {
	vm := otto.New()
	if _, err := vm.Run(prelude); err != nil {
		panic(err)
	}
	return vm
}

func getVM(fresh bool) *otto.Otto {
	if fresh {
		return newVM()
	}
	if sharedVM == nil || sharedUses > 1500 {
		sharedVM = newVM()
		sharedUses = 0
	}
	sharedUses++
	return sharedVM
}

const sectionSep = "\x1e"

// runScript evaluates a function body that returns its observations joined by sectionSep.
func runScript(body string, fresh bool) ([]string, string) {
	r := harness.Run(getVM(fresh), "(function(){"+body+"})()")
	if r.Panicked {
		sharedVM = nil
		return nil, "panic:" + fmt.Sprint(r.Panic)
	}
	if r.Err != nil {
		sharedVM = nil
		return nil, "script failed outside the observed call: " + r.Err.Error()
	}
	if !r.Value.IsString() {
		return nil, "script returned " + harness.Repr(r.Value)
	}
	s, _ := r.Value.ToString()
	return strings.Split(s, sectionSep), ""
}

func joinSections(exprs ...string) string {
	return "return " + strings.Join(exprs, `+"\x1e"+`) + ";"
}

func show(s string) string { return strconv.QuoteToASCII(s) }
