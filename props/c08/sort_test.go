package c08

import (
	"fmt"
	"strings"
	"testing"

	"pgregory.net/rapid"

	"verif/lib/harness"
	"verif/lib/m08"
)

// ---- facet: sort (validity predicate, ES5.1 15.4.4.11) -------------------------------------------------------

type sortCase struct {
	Env
	Cmp     string `json:"cmp"`     // default revstr typestr zero frac big throw notfn
	ThrowAt int    `json:"throwAt"` // for cmp = throw
}

// Comparators are consistent in the sense of 15.4.4.11 (they induce a total preorder on the value pool).
var cmpJS = map[string]string{
	"default": "undefined",
	"revstr":  "function(a,b){__cmp(a,b,this,arguments.length);a=String(a);b=String(b);return a<b?1:(a>b?-1:0)}",
	"typestr": "function(a,b){__cmp(a,b,this,arguments.length);a=typeof a+String(a);b=typeof b+String(b);return a<b?-1:(a>b?1:0)}",
	"zero":    "function(a,b){__cmp(a,b,this,arguments.length);return 0}",
	"frac":    "function(a,b){__cmp(a,b,this,arguments.length);a=String(a);b=String(b);return a<b?-0.25:(a>b?0.25:0)}",
	"big":     "function(a,b){__cmp(a,b,this,arguments.length);a=String(a);b=String(b);return a<b?-1e300:(a>b?1e19:-0)}",
	"inf":     "function(a,b){__cmp(a,b,this,arguments.length);a=String(a);b=String(b);return a<b?-Infinity:(a>b?Infinity:0)}",
}

func (c *sortCase) script() string {
	var b strings.Builder
	b.WriteString(c.Env.setupJS())
	b.WriteString("var __calls=0,__bad='';function __cmp(a,b,t,n){var k=__calls++;if(a===undefined||b===undefined)__bad+='undefined passed to comparefn;';if(n!==2)__bad+='comparefn called with '+n+' arguments;';if(t!==__G)__bad+='comparefn this is not undefined;';")
	if c.Cmp == "throw" {
		fmt.Fprintf(&b, "if(k===%d)throw new RangeError('cmp');", c.ThrowAt)
	}
	b.WriteString("}")
	cmp := cmpJS[c.Cmp]
	switch c.Cmp {
	case "throw":
		cmp = cmpJS["revstr"]
	case "notfn", "omitted", "void", "undefined":
		cmp = "undefined"
	}
	fmt.Fprintf(&b, "var CMP=%s;var before=__D(R),setup=__log;__log='';var same='',err='';try{same=String(", cmp)
	arg := "CMP" // "default": the comparefn argument is passed explicitly and is undefined (a variable holding undefined)
	switch c.Cmp {
	case "omitted":
		arg = ""
	case "void":
		arg = "void 0"
	case "undefined":
		arg = "undefined"
	}
	if c.Recv.Kind == "array" {
		b.WriteString("R.sort(" + arg + ")===R")
	} else if arg == "" {
		b.WriteString("Array.prototype.sort.call(R)===R")
	} else {
		b.WriteString("Array.prototype.sort.call(R," + arg + ")===R")
	}
	b.WriteString(")}catch(e){err=__E(e)}")
	b.WriteString(joinSections("before", "setup", "same", "err", "__bad", "String(__calls)", "__D(R)"))
	return b.String()
}

// entry of a rendered state: name → rendered value (with attributes).
func parseDump(d string) (props map[string]string, tail string) {
	props = map[string]string{}
	ents := strings.Split(d, ";")
	for _, ent := range ents {
		name, rest, ok := strings.Cut(ent, "=")
		if !ok {
			tail += ent + ";"
			continue
		}
		props[name] = rest
	}
	return props, tail
}

func checkSort(c sortCase) harness.Outcome {
	w := c.Env.build()
	o := harness.Outcome{Nontrivial: c.Env.restricted() || c.Cmp != "omitted", Classes: []string{"cmp:" + c.Cmp, "recv:" + c.Recv.Kind}}
	before := m08.Dump(w.recv)
	var length float64
	tooLong := false
	func() {
		defer func() {
			if p := recover(); p != nil {
				if _, ok := p.(m08.TooLong); ok {
					tooLong = true
					return
				}
				panic(p)
			}
		}()
		length = float64(w.m.ToUint32(w.recv.Get("length")))
	}()
	if tooLong || length > 64 {
		o.Discard = "length above the sort facet's bound"
		return o
	}
	convLog := logText(w.m.Log) // conversion of an object-valued length
	// the elements the algorithm may touch: indices below len
	var defined, all []m08.Value
	undefs, holes := 0, 0
	for k := 0.0; k < length; k++ {
		name := fmt.Sprintf("%d", int(k))
		p := w.recv.GetOwnProperty(name)
		switch {
		case p == nil:
			holes++
		case p.V.K == m08.Undef:
			undefs++
		default:
			defined = append(defined, p.V)
		}
		if p != nil {
			all = append(all, p.V)
		}
	}
	if holes > 0 {
		o.Classes = append(o.Classes, "holes")
	}
	if undefs > 0 {
		o.Classes = append(o.Classes, "undefined-elements")
	}
	got, bad := runScript(c.script(), false)
	if bad != "" {
		o.Fail = bad + "\nscript: " + c.script()
		return o
	}
	fail := func(f string, a ...interface{}) harness.Outcome {
		o.Fail = fmt.Sprintf("Array.prototype.sort (ES5.1 15.4.4.11): "+f, a...) + "\nscript: " + c.script()
		return o
	}
	if len(got) != 7 {
		return fail("malformed observation %q", got)
	}
	gBefore, gSetup, gSame, gErr, gBad, gCalls, gAfter := got[0], got[1], got[2], got[3], got[4], got[5], got[6]
	if gBefore != before || gSetup != "" {
		return fail("receiver before the call: model %s, otto %s (setup log %s)", show(before), show(gBefore), show(gSetup))
	}
	if gBad != "" {
		return fail("%s (SortCompare calls comparefn only with two defined values, this = undefined)", gBad)
	}
	if c.Cmp == "throw" {
		// the number of comparisons is implementation-defined: either the throw happened and propagates, or it was never reached
		o.Classes = append(o.Classes, "throws-or-not:"+gErr)
		if gErr != "" && gErr != "E:RangeError" {
			return fail("comparefn threw RangeError, the call ended with %s", gErr)
		}
		if gErr == "E:RangeError" {
			return o
		}
	} else if gErr != "" {
		return fail("unexpected exception %s", gErr)
	}
	if gSame != "true" {
		return fail("the call must return the receiver itself, got identity test %q", gSame)
	}
	_ = gCalls
	// conversion log: only the length conversion may be logged
	// (elements are primitives or tagged plain objects: their ToString has no effect)
	_ = convLog
	bp, btail := parseDump(before)
	ap, atail := parseDump(gAfter)
	if btail != atail {
		return fail("extensibility/prototype changed: %q -> %q", btail, atail)
	}
	// properties outside [0,len) must be untouched
	for name, v := range bp {
		if i, isIdx := m08.IsArrayIndex(name); isIdx && float64(i) < length {
			continue
		}
		if ap[name] != v {
			return fail("property %q outside the sorted range changed from %q to %q", name, v, ap[name])
		}
	}
	for name := range ap {
		if i, isIdx := m08.IsArrayIndex(name); isIdx && float64(i) < length {
			continue
		}
		if _, ok := bp[name]; !ok {
			return fail("property %q appeared", name)
		}
	}
	// layout: defined values (ordered), then undefined values, then holes
	nd := len(defined)
	pool := map[string]int{}
	for _, v := range defined {
		pool["wec"+m08.Ser(v)]++
	}
	var sorted []m08.Value
	byser := map[string]m08.Value{}
	for _, v := range defined {
		byser["wec"+m08.Ser(v)] = v
	}
	for k := 0; k < int(length); k++ {
		name := fmt.Sprintf("%d", k)
		r, present := ap[name]
		switch {
		case k < nd:
			if !present || pool[r] == 0 {
				return fail("index %d holds %q: the result is not a permutation of the defined elements %v placed first (state %s)", k, r, serAll(defined), show(gAfter))
			}
			pool[r]--
			sorted = append(sorted, byser[r])
		case k < nd+undefs:
			if !present || r != "wecu" {
				return fail("index %d must hold undefined (undefined values sort after all others, before the holes), state %s", k, show(gAfter))
			}
		default:
			if present {
				return fail("index %d must be a hole (absent elements come last), state %s", k, show(gAfter))
			}
		}
	}
	if c.Cmp == "inf" && harness.Known("C08-SORT-INFINITE-COMPARE") {
		o.Excluded = append(o.Excluded, "C08-SORT-INFINITE-COMPARE") // permutation and layout were checked, the order is not
		return o
	}
	for k := 0; k+1 < len(sorted); k++ {
		if r := compareModel(w.m, c.Cmp, sorted[k], sorted[k+1]); r > 0 {
			return fail("elements %s and %s at indices %d,%d are out of order for comparator %s (state %s)", m08.Ser(sorted[k]), m08.Ser(sorted[k+1]), k, k+1, c.Cmp, show(gAfter))
		}
	}
	return o
}

func serAll(v []m08.Value) []string {
	out := make([]string, len(v))
	for i := range v {
		out[i] = m08.Ser(v[i])
	}
	return out
}

// compareModel is SortCompare for two defined values under the case's comparator.
func compareModel(m *m08.Machine, cmp string, a, b m08.Value) int {
	sa, sb := m.ToString(a), m.ToString(b)
	three := func(x, y string) int {
		switch {
		case x < y:
			return -1
		case x > y:
			return 1
		}
		return 0
	}
	switch cmp {
	case "default", "notfn", "frac", "big", "inf", "omitted", "void", "undefined":
		return three(sa, sb)
	case "revstr", "throw":
		return -three(sa, sb)
	case "typestr":
		return three(m08.TypeOf(a)+sa, m08.TypeOf(b)+sb)
	}
	return 0 // zero: everything is equal
}

var sortFacet = harness.Register(&harness.Facet[sortCase]{
	Name:     "sort",
	Rule:     "rapid: receiver = array or array-like of ≤ 8 pool values (numbers incl. -0/NaN, strings, booleans, null, undefined, tagged objects) and holes, no inherited indices and no restricted attributes (15.4.4.11 makes those implementation-defined), length exact/nearby/odd; comparator ∈ {omitted, explicitly undefined (variable / `undefined` / `void 0`), reverse string order, typeof+string order, constant 0, fractional results ±0.25, huge results -1e300/1e19/-0, results ±Infinity, throwing at the k-th comparison}; validity predicate: returns the receiver, comparefn only sees defined values, result is a permutation (by identity and SameValue) with defined values first in comparator order, then undefined, then holes; properties outside [0,len) untouched; non-trivial = holes/odd length or a comparator is given; distinct by the whole case",
	Quick:    4000,
	Thorough: 20000,
	Gen: func(t *rapid.T) sortCase {
		c := sortCase{Env: genEnv(t, true)}
		cmps := []string{"default", "omitted", "void", "undefined", "revstr", "typestr", "zero", "frac", "big", "inf", "throw"}
		c.Cmp = cmps[pickUniform(t, "cmp", len(cmps))]
		if c.Cmp == "throw" {
			c.ThrowAt = rapid.IntRange(0, 6).Draw(t, "throwAt")
		}
		return c
	},
	Check: checkSort,
})

func TestSort(t *testing.T) { sortFacet.Run(t) }

var sortOptionalFacet = harness.Register(&harness.Facet[sortCase]{
	Name:  "optional-arguments-sort",
	Rule:  "complete product: sort with comparefn omitted / passed as `undefined` / `void 0` / a variable holding undefined × the four receivers of optional-arguments; same validity predicate as the sort facet (default string order in every spelling)",
	Check: checkSort,
})

func TestOptionalArgumentsSort(t *testing.T) {
	var cases []sortCase
	for _, recv := range optionalReceivers() {
		for _, cmp := range []string{"omitted", "undefined", "void", "default"} {
			c := sortCase{Cmp: cmp}
			c.Env = Env{VNums: []string{"1", "2", "3"}, TStrs: []string{"1", "2"}, Recv: recv, Xs: [][]Val{{}, {}}}
			cases = append(cases, c)
		}
	}
	harness.SetExhaustive(sortOptionalFacet.Name)
	sortOptionalFacet.Each(t, cases)
}
