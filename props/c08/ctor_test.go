package c08

import (
	"fmt"
	"strings"
	"testing"

	"pgregory.net/rapid"

	"verif/lib/harness"
	"verif/lib/m08"
)

// ---- facet: Array(...), new Array(...), Array.isArray ------------------------------------------------------------

type ctorCase struct {
	Env
	Form string `json:"form"` // call | new | isArray | isArrayArguments
	Args []Val  `json:"args"`
}

func (c *ctorCase) script() string {
	var b strings.Builder
	b.WriteString(c.Env.setupJS())
	args := make([]string, len(c.Args))
	for i, a := range c.Args {
		args[i] = a.js()
	}
	var expr string
	switch c.Form {
	case "call":
		expr = "Array(" + strings.Join(args, ",") + ")"
	case "new":
		expr = "new Array(" + strings.Join(args, ",") + ")"
	case "isArray":
		expr = "Array.isArray(" + strings.Join(args, ",") + ")"
	case "isArrayArguments":
		expr = "(function(){return Array.isArray(arguments)})(" + strings.Join(args, ",") + ")"
	}
	fmt.Fprintf(&b, "var ret='',err='';try{ret=__S(%s)}catch(e){err=__E(e)}", expr)
	b.WriteString(joinSections("ret", "err", "__log"))
	return b.String()
}

func checkCtor(c ctorCase) harness.Outcome {
	w := c.Env.build()
	o := harness.Outcome{Classes: []string{"form:" + c.Form, fmt.Sprintf("nargs:%d", len(c.Args))}}
	args := make([]m08.Value, len(c.Args))
	for i, a := range c.Args {
		args[i] = w.val(a)
		if !a.smallIndex() {
			o.Nontrivial = true
		}
	}
	w.m.Log = nil
	ret := ""
	t := m08.Try(func() {
		switch c.Form {
		case "call", "new":
			ret = m08.Ser(w.m.ArrayConstruct(args))
		case "isArray":
			ret = m08.Ser(w.m.IsArray(args))
		case "isArrayArguments":
			ret = "f" // an arguments object has [[Class]] "Arguments" (10.6)
		}
	})
	want := []string{ret, errSer(t), logText(w.m.Log)}
	if want[1] != "" {
		o.Classes = append(o.Classes, "throws:"+want[1])
	}
	got, bad := runScript(c.script(), false)
	if bad != "" {
		o.Fail = bad + "\nscript: " + c.script()
		return o
	}
	if !sameSections(want, got) {
		o.Fail = fmt.Sprintf("Array constructor / Array.isArray (ES5.1 15.4.1, 15.4.2, 15.4.3.2): (value, thrown, log) ES5 gives %q, otto gives %q\nscript: %s", want, got, c.script())
	}
	return o
}

var ctorArgs = []Val{
	vn("0"), vn("1"), vn("3"), vn("7"), vn("-0"), vn("-1"), vn("1.5"), vn("NaN"), vn("Infinity"), vn("-Infinity"), vn("4294967295"), vn("4294967296"), vn("4294967294"), vn("2147483648"), vn("1e21"), vn("0.5"),
	vs("3"), vs(""), vs("a"), vu(), {K: "l"}, {K: "t"}, {K: "f"}, vref("V1"), vref("T1"), vref("O1"), vref("R"), vref("X0"), vref("AP"), vref("OP"), vref("G"),
}

var ctorFacet = harness.Register(&harness.Facet[ctorCase]{
	Name:     "constructor-isArray",
	Rule:     "rapid: Array(...)/new Array(...) with 0–3 arguments and Array.isArray with 0–2 arguments from {small integers, -0, negative, fractional, NaN, ±Infinity, 2^31, 2^32-2, 2^32-1, 2^32, 1e21, numeric strings, undefined, null, booleans, valueOf/toString objects (must not be converted), plain objects, an array, an array-like, Array.prototype, Object.prototype, the global object}, plus Array.isArray(arguments); compared with 15.4.1/15.4.2/15.4.3.2 (single numeric argument: length or RangeError; otherwise elements): value with all own properties, thrown class, conversion log (must stay empty); non-trivial = an argument is not a small non-negative integer; distinct by the whole case",
	Quick:    3000,
	Thorough: 10000,
	Gen: func(t *rapid.T) ctorCase {
		c := ctorCase{Env: genEnv(t, true)}
		c.Recv.Len = nil
		if c.Recv.Kind == "object" {
			l := vn("2")
			c.Recv.Len = &l
		}
		forms := []string{"call", "new", "call", "new", "isArray", "isArrayArguments"}
		c.Form = forms[pickUniform(t, "form", len(forms))]
		max := 3
		if c.Form == "isArray" {
			max = 2
		}
		n := rapid.IntRange(0, max).Draw(t, "nargs")
		if c.Form != "isArray" && rapid.Bool().Draw(t, "single") {
			n = 1
		}
		for i := 0; i < n; i++ {
			c.Args = append(c.Args, ctorArgs[pickUniform(t, "arg", len(ctorArgs))])
		}
		return c
	},
	Check: checkCtor,
})

func TestConstructorIsArray(t *testing.T) { ctorFacet.Run(t) }
