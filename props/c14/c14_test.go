// Package c14 decides property C14: the standard library has the ES5 shape - every binding,
// arity and attribute of ES5.1 clause 15 (plus annex B.2), in every fresh runtime and every copy.
//
// The space is finite: lib/m14 holds the table typed in from the ES5.1 text; every row is checked
// in every configuration (exhaustive enumeration, no sampling).
package c14

import (
	"encoding/json"
	"fmt"
	"os"
	"sort"
	"strings"
	"testing"
	"time"

	"github.com/robertkrimen/otto"
	"github.com/robertkrimen/otto/underscore"

	"verif/lib/harness"
	"verif/lib/m14"
)

const workerName = "c14-underscore"

func init() {
	// Date rows tell local-time methods from UTC methods: fix the zone (otto reads time.Local).
	time.Local = time.FixedZone("VRF", 5*3600+30*60)
	// Importing otto/underscore registers the library for every otto.New() of the process. Only the
	// subprocess worker keeps it; every other configuration of this binary must stay clean.
	if os.Getenv("VERIF_WORKER") != workerName {
		underscore.Disable()
	}
	harness.RegisterWorker(workerName, serveUnderscore)
}

func TestMain(m *testing.M) { harness.Main(m, "C14") }

// ---- configurations -----------------------------------------------------------------------------

// A configuration is a way of obtaining a runtime. Probes do not mutate the runtime, so one
// runtime per configuration is reused; a replayed case builds its configuration again.
var (
	localVMs = map[string]*otto.Otto{}
	worker   *harness.Worker
)

const benignWorkload = `(function(){var o={a:[1,2,{b:"x"}],d:new Date(0),r:/x/g};function F(a){this.a=a} F.prototype.m=function(){return this.a};
var s=JSON.stringify([new F(1).m(),o.a.slice(1).length,"abc".toUpperCase(),Math.max(1,2),"a-b".split("-"),o.r.test("x")]);try{null.x}catch(e){s+=e.name}
try{decodeURI("%")}catch(e){s+=e.name}return s+[3,1,2].sort().join()+new Date(5).getTime()+parseInt("12")})();`

func buildLocal(name string) *otto.Otto {
	switch {
	case name == "fresh" || name == "fresh2":
		return otto.New()
	case name == "used":
		vm := otto.New()
		if _, err := vm.Run(benignWorkload); err != nil {
			panic("benign workload failed: " + err.Error())
		}
		return vm
	case name == "used-copy":
		return buildLocal("used").Copy()
	case strings.HasPrefix(name, "copy"):
		depth := 1
		if name != "copy" {
			fmt.Sscanf(name, "copy%d", &depth)
		}
		vm := otto.New()
		for i := 0; i < depth; i++ {
			vm = vm.Copy()
		}
		return vm
	}
	panic("unknown configuration " + name)
}

func isRemote(config string) bool { return strings.HasPrefix(config, "underscore") }

// eval evaluates a probe in the configuration and returns its string result, or "throws:…" /
// "panic:…" / "worker:…".
func eval(config, js string) string {
	if isRemote(config) {
		if worker == nil {
			worker = harness.NewWorker(workerName)
		}
		resp, st, detail := worker.Do(workerReq{Config: config, JS: js}, 60*time.Second)
		if st != harness.WorkerOK { // one retry absorbs a transient start failure; a second failure is reported
			resp, st, detail = worker.Do(workerReq{Config: config, JS: js}, 120*time.Second)
		}
		if st != harness.WorkerOK {
			return fmt.Sprintf("worker:%d %s", st, detail)
		}
		var r workerResp
		if err := json.Unmarshal(resp, &r); err != nil {
			return "worker:bad response " + err.Error()
		}
		return r.R
	}
	vm := localVMs[config]
	if vm == nil {
		vm = buildLocal(config)
		localVMs[config] = vm
	}
	return harness.Run(vm, js).Describe()
}

type workerReq struct {
	Config string `json:"config"`
	JS     string `json:"js"`
}
type workerResp struct {
	R string `json:"r"`
}

var workerVMs = map[string]*otto.Otto{}

// serveUnderscore is the child side: otto.New() there loads underscore through the registry.
func serveUnderscore(req json.RawMessage) json.RawMessage {
	var q workerReq
	if err := json.Unmarshal(req, &q); err != nil {
		b, _ := json.Marshal(workerResp{R: "worker:bad request " + err.Error()})
		return b
	}
	vm := workerVMs[q.Config]
	if vm == nil {
		r := harness.Guard(func() (otto.Value, error) {
			switch q.Config {
			case "underscore":
				vm = otto.New()
			case "underscore-copy":
				vm = otto.New().Copy()
			}
			return otto.Value{}, nil
		})
		if r.Panicked || vm == nil {
			b, _ := json.Marshal(workerResp{R: fmt.Sprintf("worker:cannot build %s: %v", q.Config, r.Panic)})
			return b
		}
		workerVMs[q.Config] = vm
	}
	b, _ := json.Marshal(workerResp{R: harness.Run(vm, q.JS).Describe()})
	return b
}

// configs lists the configurations of this run. Quick: the five the property names. Thorough:
// deeper copy chains (one depth per shard), a used runtime and its copy, a copy of the
// underscore runtime.
func configs() []string {
	c := []string{"fresh", "fresh2", "copy", "copy2", "underscore"}
	if harness.Thorough() {
		c = append(c, "used", "used-copy", "underscore-copy", fmt.Sprintf("copy%d", 3+harness.Shard()))
	}
	return c
}

// ---- known findings: exclusion classes are exactly the affected (row, aspect) pairs ---------------------

type maskEntry struct {
	id      string
	key     string   // row key "owner.name", object path, for-in subject …
	aspects []string // nil = every aspect of that key
}

var masks = map[string][]maskEntry{} // facet -> entries (filled in known.go)

func addMask(facet, id, key string, aspects ...string) {
	masks[facet] = append(masks[facet], maskEntry{id, key, aspects})
}

// applyMasks splits mismatches into violations and exclusions under the active known findings.
func applyMasks(facet, key string, mm []m14.Mismatch) (bad []m14.Mismatch, excluded []string) {
	seen := map[string]bool{}
	for _, m := range mm {
		masked := ""
		for _, e := range masks[facet] {
			if e.key != key || !harness.Known(e.id) {
				continue
			}
			if len(e.aspects) == 0 {
				masked = e.id
				break
			}
			for _, a := range e.aspects {
				if a == m.Aspect {
					masked = e.id
				}
			}
		}
		if masked == "" {
			bad = append(bad, m)
		} else if !seen[masked] {
			seen[masked] = true
			excluded = append(excluded, masked)
		}
	}
	return bad, excluded
}

func failText(what, ref string, bad []m14.Mismatch) string {
	if len(bad) == 0 {
		return ""
	}
	p := make([]string, len(bad))
	for i, m := range bad {
		p[i] = m.String()
	}
	msg := fmt.Sprintf("%s (ES5.1 %s): %s", what, ref, strings.Join(p, "; "))
	if os.Getenv("C14_LIST") != "" { // development aid: list every failing case, not only the first five
		fmt.Fprintln(os.Stderr, "LIST "+msg)
	}
	return msg
}

func evalFailed(s string) bool {
	return strings.HasPrefix(s, "throws:") || strings.HasPrefix(s, "panic:") || strings.HasPrefix(s, "worker:") || s == "budget"
}

func section(owner string) string {
	for _, cut := range []string{".", "("} {
		if i := strings.Index(owner, cut); i > 0 {
			owner = owner[:i]
		}
	}
	return owner
}

// ---- facet: rows --------------------------------------------------------------------------------------

type rowCase struct {
	Config string `json:"config"`
	Owner  string `json:"owner"`
	Name   string `json:"name"`
}

var rowsFacet = harness.Register(&harness.Facet[rowCase]{
	Name: "rows",
	Rule: "exhaustive: every (owner, property) row of the ES5.1 clause-15/B.2 table in lib/m14 (typed in from the specification: bindings, kinds, function lengths, attributes, values of constants, constructor/prototype links, a distinguishing call per function; plus the properties of instances from 13.2, 10.6, 15.x.5) x every configuration (fresh, second fresh, Copy, copy of a copy, underscore loaded in a subprocess; thorough adds deeper copies, a used runtime, copies of those). Observed through getOwnPropertyDescriptor, typeof, .length, Object.prototype.toString.call, getPrototypeOf. Every row is non-trivial; distinct by (configuration, owner, property).",
	Check: func(c rowCase) harness.Outcome {
		r, ok := m14.FindRow(c.Owner, c.Name)
		if !ok {
			return harness.Outcome{Discard: "row no longer in the table"}
		}
		res := eval(c.Config, m14.RowProbe(r))
		out := harness.Outcome{Nontrivial: true, Classes: []string{"config:" + c.Config, "kind:" + r.Kind, "section:" + section(r.Owner)}}
		if r.Inst {
			out.Classes = append(out.Classes, "instance-row")
		}
		if evalFailed(res) {
			out.Fail = fmt.Sprintf("row %s (ES5.1 %s): probe did not complete: %s", r.Key(), r.Ref, res)
			return out
		}
		bad, excl := applyMasks("rows", r.Key(), m14.CompareRow(r, m14.ParseObs(res)))
		out.Excluded = excl
		out.Fail = failText("row "+r.Key()+" in configuration "+c.Config, r.Ref, bad)
		return out
	},
})

func TestRows(t *testing.T) {
	var cases []rowCase
	for _, cfg := range configs() {
		for _, r := range m14.Rows() {
			cases = append(cases, rowCase{cfg, r.Owner, r.Name})
		}
	}
	harness.SetExhaustive(rowsFacet.Name)
	rowsFacet.Each(t, cases)
}

// ---- facet: objects -----------------------------------------------------------------------------------

type objCase struct {
	Config string `json:"config"`
	Path   string `json:"path"`
}

var objectsFacet = harness.Register(&harness.Facet[objCase]{
	Name: "objects",
	Rule: "exhaustive: every built-in object and prototype of ES5.1 clause 15 (and one instance of every kind) x every configuration: [[Class]] via Object.prototype.toString.call, [[Prototype]] via Object.getPrototypeOf, callability via typeof, [[Extensible]], and the stated primitive value / behaviour of the prototype objects. Every object is non-trivial; distinct by (configuration, path).",
	Check: func(c objCase) harness.Outcome {
		r, ok := m14.FindObj(c.Path)
		if !ok {
			return harness.Outcome{Discard: "object no longer in the table"}
		}
		res := eval(c.Config, m14.ObjProbe(r))
		out := harness.Outcome{Nontrivial: true, Classes: []string{"config:" + c.Config, "class:" + r.Class}}
		if evalFailed(res) {
			out.Fail = fmt.Sprintf("object %s (ES5.1 %s): probe did not complete: %s", r.Path, r.Ref, res)
			return out
		}
		bad, excl := applyMasks("objects", r.Path, m14.CompareObj(r, m14.ParseObs(res)))
		out.Excluded = excl
		out.Fail = failText("object "+r.Path+" in configuration "+c.Config, r.Ref, bad)
		return out
	},
})

func TestObjects(t *testing.T) {
	var cases []objCase
	for _, cfg := range configs() {
		for _, o := range m14.Objects() {
			cases = append(cases, objCase{cfg, o.Path})
		}
	}
	harness.SetExhaustive(objectsFacet.Name)
	objectsFacet.Each(t, cases)
}

// ---- facet: extensions (non-ES5 members with a de-facto meaning) -----------------------------------------

var extFacet = harness.Register(&harness.Facet[rowCase]{
	Name: "extensions",
	Rule: "exhaustive: every member the table lists as a tolerated non-ES5 extension with a well-known meaning (trimLeft, trimStart, Object.assign, Math.cbrt …) x every configuration: when present it must be non-enumerable and bound to the operation of its name (distinguishing call); when absent the case is discarded. Distinct by (configuration, owner, property).",
	Check: func(c rowCase) harness.Outcome {
		e, ok := m14.FindExt(c.Owner, c.Name)
		if !ok {
			return harness.Outcome{Discard: "extension no longer in the table"}
		}
		res := eval(c.Config, m14.ExtProbe(e))
		if evalFailed(res) {
			return harness.Outcome{Nontrivial: true, Fail: fmt.Sprintf("extension %s.%s: probe did not complete: %s", e.Owner, e.Name, res)}
		}
		o := m14.ParseObs(res)
		if o["present"] != "true" {
			return harness.Outcome{Discard: "extension absent"}
		}
		var mm []m14.Mismatch
		if o["enum"] != "false" || o["pie"] != "false" {
			mm = append(mm, m14.Mismatch{Aspect: "enumerable", Want: "false", Got: "descriptor " + o["enum"] + ", propertyIsEnumerable " + o["pie"]})
		}
		if o["type"] != "function" {
			mm = append(mm, m14.Mismatch{Aspect: "typeof", Want: "function", Got: o["type"]})
		}
		if o["call"] != "true" {
			mm = append(mm, m14.Mismatch{Aspect: "call", Want: "true", Got: o["call"]})
		}
		bad, excl := applyMasks("extensions", e.Owner+"."+e.Name, mm)
		return harness.Outcome{Nontrivial: true, Classes: []string{"config:" + c.Config, "present"}, Excluded: excl,
			Fail: failText("extension "+e.Owner+"."+e.Name+" in configuration "+c.Config, e.Ref, bad)}
	},
})

func TestExtensions(t *testing.T) {
	var cases []rowCase
	for _, cfg := range configs() {
		for _, e := range m14.Extensions() {
			cases = append(cases, rowCase{cfg, e.Owner, e.Name})
		}
	}
	harness.SetExhaustive(extFacet.Name)
	extFacet.Each(t, cases)
}

// ---- facet: extras (whatever else a built-in carries must be non-enumerable) -----------------------------------

type ownerCase struct {
	Config string `json:"config"`
	Owner  string `json:"owner"`
}

var extrasFacet = harness.Register(&harness.Facet[ownerCase]{
	Name: "extras",
	Rule: "exhaustive: every built-in owner of the table (global object, constructors, prototypes, Math, JSON and every built-in function object) x every configuration: each own property that ES5.1 does not list for that owner (console, name, trimStart, Object.assign …) must be non-enumerable (descriptor and propertyIsEnumerable); in the underscore configuration the global `_` is the one tolerated user-level binding. Non-trivial = the owner has at least one extra; distinct by (configuration, owner).",
	Check: func(c ownerCase) harness.Outcome {
		_, names := m14.Owners()
		spec, ok := names[c.Owner]
		if !ok {
			return harness.Outcome{Discard: "owner no longer in the table"}
		}
		res := eval(c.Config, m14.OwnProbe(c.Owner))
		props, err := m14.ParseOwn(res)
		if err != nil {
			return harness.Outcome{Nontrivial: true, Fail: fmt.Sprintf("owner %s: probe did not complete: %s", c.Owner, res)}
		}
		out := harness.Outcome{Classes: []string{"config:" + c.Config}}
		var mm []m14.Mismatch
		for _, p := range props {
			if spec[p.Name] {
				continue
			}
			out.Nontrivial = true
			if c.Owner == "G" && p.Name == "_" && isRemote(c.Config) {
				out.Classes = append(out.Classes, "underscore-global-binding")
				continue
			}
			out.Classes = append(out.Classes, "extra:"+c.Owner+"."+p.Name)
			if len(p.Attrs) != 3 || p.Attrs[1] != '-' || p.PIE != "false" {
				mm = append(mm, m14.Mismatch{Aspect: p.Name, Want: "non-enumerable extra", Got: "attributes " + p.Attrs + ", propertyIsEnumerable " + p.PIE})
			}
		}
		bad, excl := applyMasks("extras", c.Owner, mm)
		out.Excluded = excl
		out.Fail = failText("extras of "+c.Owner+" in configuration "+c.Config, "15 / 16 (extensions must not show up in for-in)", bad)
		return out
	},
})

func TestExtras(t *testing.T) {
	owners, _ := m14.Owners()
	var cases []ownerCase
	for _, cfg := range configs() {
		for _, o := range owners {
			cases = append(cases, ownerCase{cfg, o})
		}
	}
	harness.SetExhaustive(extrasFacet.Name)
	extrasFacet.Each(t, cases)
}

// ---- facet: for-in ------------------------------------------------------------------------------------------

type forinCase struct {
	Config  string `json:"config"`
	Subject string `json:"subject"`
}

var forinFacet = harness.Register(&harness.Facet[forinCase]{
	Name: "forin",
	Rule: "exhaustive: a for-in loop over each subject of lib/m14 ForInSubjects (empty and populated object literals, arrays, string primitives and String objects, functions, bound functions, wrappers, a Date, RegExps, Errors, arguments, results of built-ins, objects with inherited user properties, and every built-in object of the table) x every configuration must visit exactly the own indices / user-defined enumerable names ES5.1 defines, each once: no inherited or built-in name. Non-trivial = every subject; distinct by (configuration, subject).",
	Check: func(c forinCase) harness.Outcome {
		f, ok := m14.FindForIn(c.Subject)
		if !ok {
			return harness.Outcome{Discard: "subject no longer in the table"}
		}
		res := eval(c.Config, m14.ForInProbe(f.Subject))
		got, err := m14.ParseKeys(res)
		out := harness.Outcome{Nontrivial: true, Classes: []string{"config:" + c.Config, fmt.Sprintf("expected-keys:%d", len(f.Want))}}
		if err != nil {
			out.Fail = fmt.Sprintf("for-in over %s: probe did not complete: %s", f.Subject, res)
			return out
		}
		want := append([]string(nil), f.Want...)
		sort.Strings(want)
		var mm []m14.Mismatch
		wantSet := map[string]int{}
		for _, w := range want {
			wantSet[w]++
		}
		may := map[string]bool{}
		for _, w := range f.May {
			may[w] = true
		}
		if f.Subject == "G" && isRemote(c.Config) {
			may["_"] = true // underscore's own user-level global
		}
		gotSet := map[string]int{}
		for _, g := range got {
			gotSet[g]++
		}
		for _, g := range got {
			if gotSet[g] > 1 {
				mm = append(mm, m14.Mismatch{Aspect: g, Want: "visited once", Got: fmt.Sprintf("visited %d times", gotSet[g])})
				gotSet[g] = 1
			}
			if wantSet[g] == 0 && !may[g] {
				mm = append(mm, m14.Mismatch{Aspect: g, Want: "not visited", Got: "visited"})
			}
		}
		for _, w := range want {
			if gotSet[w] == 0 {
				mm = append(mm, m14.Mismatch{Aspect: w, Want: "visited", Got: "not visited"})
			}
		}
		bad, excl := applyMasks("forin", f.Subject, mm)
		out.Excluded = excl
		out.Fail = failText("for-in over "+f.Subject+" in configuration "+c.Config, f.Ref, bad)
		return out
	},
})

func TestForIn(t *testing.T) {
	var cases []forinCase
	for _, cfg := range configs() {
		for _, f := range m14.ForInSubjects() {
			cases = append(cases, forinCase{cfg, f.Subject})
		}
	}
	harness.SetExhaustive(forinFacet.Name)
	forinFacet.Each(t, cases)
}

// ---- facet: behaviour (attributes observed through assignment, delete and for-in) ------------------------------------

type behCase struct {
	Config string `json:"config"` // "fresh" or "copy": a disposable runtime per case
	Owner  string `json:"owner"`
	Name   string `json:"name"`
}

var behFacet = harness.Register(&harness.Facet[behCase]{
	Name: "behaviour",
	Rule: "exhaustive: every data row of the table with attributes fixed by ES5.1, on a disposable runtime per row (fresh; thorough also a Copy): the attributes are observed through behaviour instead of the descriptor - a for-in over the owner shows the name iff Enumerable, an assignment takes effect iff Writable, delete returns true and removes the property iff Configurable. Every row is non-trivial; distinct by (configuration, owner, property).",
	Check: func(c behCase) harness.Outcome {
		r, ok := m14.FindRow(c.Owner, c.Name)
		if !ok || len(r.Attrs) != 3 || r.Kind == m14.KThrower || r.Kind == m14.KAbsent {
			return harness.Outcome{Discard: "row no longer in the table"}
		}
		vm := otto.New()
		if c.Config == "copy" {
			vm = vm.Copy()
		}
		res := harness.Run(vm, m14.BehaviourProbe(r)).Describe()
		out := harness.Outcome{Nontrivial: true, Classes: []string{"config:" + c.Config, "attrs:" + r.Attrs}}
		if evalFailed(res) {
			out.Fail = fmt.Sprintf("row %s: behaviour probe did not complete: %s", r.Key(), res)
			return out
		}
		bad, excl := applyMasks("behaviour", r.Key(), m14.CompareBehaviour(r, m14.ParseObs(res)))
		out.Excluded = excl
		out.Fail = failText("behaviour of "+r.Key()+" in configuration "+c.Config, r.Ref, bad)
		return out
	},
})

func TestBehaviour(t *testing.T) {
	cfgs := []string{"fresh"}
	if harness.Thorough() {
		cfgs = append(cfgs, "copy")
	}
	var cases []behCase
	for _, cfg := range cfgs {
		for _, r := range m14.Rows() {
			if len(r.Attrs) != 3 || r.Kind == m14.KThrower || r.Kind == m14.KAbsent {
				continue
			}
			cases = append(cases, behCase{cfg, r.Owner, r.Name})
		}
	}
	harness.SetExhaustive(behFacet.Name)
	behFacet.Each(t, cases)
}

// ---- facet: links (bindings the interpreter depends on by identity; prototypes as instances of their class) ----

type linkCase struct {
	Config string `json:"config"`
	Name   string `json:"name"`
}

var linksFacet = harness.Register(&harness.Facet[linkCase]{
	Name: "links",
	Rule: "exhaustive: every behavioural link of lib/m14 Links x every configuration. Group identity: the bindings whose identity the interpreter itself depends on are the ones of THIS runtime - a direct call of eval reads, writes and declares locals and an indirect one runs in global scope (15.1.2.1.1, 10.4.2), this of a plain call and the variable environment are this runtime's global object, function objects / literals / primitives / arguments objects / results of built-ins inherit from this runtime's prototypes, errors raised by the interpreter and by built-ins are instances of this runtime's NativeError constructors. Group prototype-instance: every built-in prototype object behaves as an instance of its class (Array.prototype couples indices and length, String.prototype is the empty String object, Number/Boolean.prototype carry +0/false, Date.prototype NaN, Function.prototype is callable and returns undefined, Error prototypes print their name). Every link is non-trivial; distinct by (configuration, link).",
	Check: func(c linkCase) harness.Outcome {
		l, ok := m14.FindLink(c.Name)
		if !ok {
			return harness.Outcome{Discard: "link no longer in the table"}
		}
		res := eval(c.Config, m14.LinkProbe(l))
		out := harness.Outcome{Nontrivial: true, Classes: []string{"config:" + c.Config, "group:" + l.Group}}
		var mm []m14.Mismatch
		if res != "true" {
			mm = append(mm, m14.Mismatch{Aspect: "check", Want: "true", Got: res})
		}
		bad, excl := applyMasks("links", l.Name, mm)
		out.Excluded = excl
		out.Fail = failText("link "+l.Name+" in configuration "+c.Config+": "+l.Check, l.Ref, bad)
		return out
	},
})

func TestLinks(t *testing.T) {
	var cases []linkCase
	for _, cfg := range configs() {
		for _, l := range m14.Links() {
			cases = append(cases, linkCase{cfg, l.Name})
		}
	}
	harness.SetExhaustive(linksFacet.Name)
	linksFacet.Each(t, cases)
}

// ---- facet: dump (identity of the discovered shape between configurations) --------------------------------------------

type dumpCase struct {
	Base   string `json:"base"`
	Config string `json:"config"`
}

var dumps = map[string][]string{}

func dumpOf(config string) ([]string, string) {
	if d, ok := dumps[config]; ok {
		return d, ""
	}
	res := eval(config, m14.DumpJS)
	if evalFailed(res) || !strings.HasPrefix(res, "OBJ global ") {
		if len(res) > 300 {
			res = res[:300]
		}
		return nil, res
	}
	d := strings.Split(res, "\n")
	dumps[config] = d
	return d, ""
}

var dumpFacet = harness.Register(&harness.Facet[dumpCase]{
	Name: "dump",
	Rule: "exhaustive over configurations: a discovered full dump (breadth-first walk from the global object through every own property value, getter, setter and [[Prototype]]: per object its class, typeof, extensibility, prototype and, for functions, Function.prototype.toString text; per own property its attributes and value kind / primitive value / target object) must be line-for-line equal to the dump of the first fresh runtime (the underscore configuration modulo its one global `_`, which must be present there and absent elsewhere), and no built-in own property anywhere may be enumerable. Distinct by (base, configuration).",
	Check: func(c dumpCase) harness.Outcome {
		out := harness.Outcome{Nontrivial: true, Classes: []string{"config:" + c.Config}}
		base, e1 := dumpOf(c.Base)
		got, e2 := dumpOf(c.Config)
		if e1 != "" || e2 != "" {
			out.Fail = fmt.Sprintf("dump did not complete: base %q, %s %q", e1, c.Config, e2)
			return out
		}
		out.Classes = append(out.Classes, fmt.Sprintf("objects:%d", countPrefix(got, "OBJ ")), fmt.Sprintf("properties:%d", countPrefix(got, "PROP ")))
		var mm []m14.Mismatch
		// (a) underscore presence
		hasSkip := false
		var gotCmp []string
		for _, l := range got {
			if l == "SKIP global._" {
				hasSkip = true
				continue
			}
			gotCmp = append(gotCmp, l)
		}
		if hasSkip != isRemote(c.Config) {
			mm = append(mm, m14.Mismatch{Aspect: "global._", Want: fmt.Sprint(isRemote(c.Config)), Got: fmt.Sprint(hasSkip)})
		}
		var baseCmp []string
		for _, l := range base {
			if l != "SKIP global._" {
				baseCmp = append(baseCmp, l)
			}
		}
		// (b) identity
		if c.Base != c.Config {
			inBase := map[string]bool{}
			for _, l := range baseCmp {
				inBase[l] = true
			}
			inGot := map[string]bool{}
			for _, l := range gotCmp {
				inGot[l] = true
			}
			n := 0
			for _, l := range baseCmp {
				if !inGot[l] && n < 6 {
					mm = append(mm, m14.Mismatch{Aspect: "line of " + c.Base, Want: l, Got: "missing in " + c.Config})
					n++
				}
			}
			n = 0
			for _, l := range gotCmp {
				if !inBase[l] && n < 6 {
					mm = append(mm, m14.Mismatch{Aspect: "line of " + c.Config, Want: "present in " + c.Base, Got: l})
					n++
				}
			}
			if len(mm) == 0 && strings.Join(baseCmp, "\n") != strings.Join(gotCmp, "\n") {
				mm = append(mm, m14.Mismatch{Aspect: "order", Want: "same discovery order", Got: "same lines in another order"})
			}
		}
		bad, excl := applyMasks("dump", c.Config, mm)
		// (c) nothing enumerable
		for _, l := range gotCmp {
			f := strings.SplitN(l, " ", 4)
			if len(f) >= 3 && f[0] == "PROP" && len(f[2]) == 3 && f[2][1] == 'E' {
				b2, e2 := applyMasks("dump-enumerable", f[1], []m14.Mismatch{{Aspect: f[1], Want: "non-enumerable", Got: f[2]}})
				bad = append(bad, b2...)
				excl = append(excl, e2...)
			}
		}
		out.Excluded = dedupe(excl)
		out.Fail = failText("shape dump of configuration "+c.Config+" against "+c.Base, "15", bad)
		return out
	},
})

func countPrefix(lines []string, p string) int {
	n := 0
	for _, l := range lines {
		if strings.HasPrefix(l, p) {
			n++
		}
	}
	return n
}

func dedupe(s []string) []string {
	seen := map[string]bool{}
	var out []string
	for _, x := range s {
		if !seen[x] {
			seen[x] = true
			out = append(out, x)
		}
	}
	return out
}

func TestDump(t *testing.T) {
	var cases []dumpCase
	for _, cfg := range configs() {
		cases = append(cases, dumpCase{"fresh", cfg})
	}
	harness.SetExhaustive(dumpFacet.Name)
	dumpFacet.Each(t, cases)
	if worker != nil {
		worker.Close()
	}
}
