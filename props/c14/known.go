package c14

// Known findings of C14 (props/c14/FINDINGS.txt, known/C14-*.json) and their exclusion classes.
// A class is the exact list of (facet, key, aspect) the root cause distorts; it is active only
// while the finding's witness still fails (harness.Known), so a repair switches the full oracle
// back on for those rows.
func init() {
	// wrong function lengths in the generator table
	addMask("rows", "C14-LEN-ATAN2", "Math.atan2", "fn-length")
	addMask("rows", "C14-LEN-ATAN2", "Math.atan2.length", "value")
	addMask("rows", "C14-LEN-NUMBER-TOSTRING", "Number.prototype.toString", "fn-length")
	addMask("rows", "C14-LEN-NUMBER-TOSTRING", "Number.prototype.toString.length", "value")
	addMask("rows", "C14-LEN-NUMBER-TOLOCALESTRING", "Number.prototype.toLocaleString", "fn-length")
	addMask("rows", "C14-LEN-NUMBER-TOLOCALESTRING", "Number.prototype.toLocaleString.length", "value")

	// B.2.6 identity of toGMTString and toUTCString
	addMask("rows", "C14-TOGMTSTRING-IDENTITY", "Date.prototype.toGMTString", "value")

	// RegExp.prototype is not a regular expression object
	for _, n := range []string{"source", "global", "ignoreCase", "multiline", "lastIndex"} {
		addMask("rows", "C14-REGEXP-PROTOTYPE", "RegExp.prototype."+n, "present")
		addMask("behaviour", "C14-REGEXP-PROTOTYPE", "RegExp.prototype."+n, "present")
	}
	addMask("objects", "C14-REGEXP-PROTOTYPE", "RegExp.prototype", "check")

	// bound functions: own prototype, data caller/arguments
	const bound = `(function(a,b,c){}).bind(null,1)`
	addMask("rows", "C14-BOUND-FUNCTION-SHAPE", bound+".prototype", "present")
	addMask("rows", "C14-BOUND-FUNCTION-SHAPE", bound+".caller", "descriptor-kind")
	addMask("rows", "C14-BOUND-FUNCTION-SHAPE", bound+".arguments", "descriptor-kind")

	// String index properties read back as non-enumerable
	addMask("rows", "C14-STRING-INDEX-DESCRIPTOR", `new String("ab").1`, "attrs")

	// own enumerable name on Error instances
	addMask("rows", "C14-ERROR-INSTANCE-NAME", `new Error("m").name`, "present")
	addMask("forin", "C14-ERROR-INSTANCE-NAME", `new Error("m")`, "name")
	addMask("forin", "C14-ERROR-INSTANCE-NAME", `new Error()`, "name")

	// Date.prototype time value
	addMask("objects", "C14-DATE-PROTOTYPE-VALUE", "Date.prototype", "check")

	// [[Class]] of the NativeError prototypes
	for _, n := range []string{"EvalError", "RangeError", "ReferenceError", "SyntaxError", "TypeError", "URIError"} {
		addMask("objects", "C14-NATIVEERROR-PROTOTYPE-CLASS", n+".prototype", "class")
	}

	// enumerable console
	addMask("extras", "C14-CONSOLE-ENUMERABLE", "G", "console")
	addMask("forin", "C14-CONSOLE-ENUMERABLE", "G", "console")
	addMask("dump-enumerable", "C14-CONSOLE-ENUMERABLE", "global.console", "global.console")

	// o.eval(x) treated as a direct call
	addMask("links", "C14-MEMBER-EVAL-DIRECT", "member-call-of-eval-is-indirect", "check")

	// Number.isNaN coerces
	addMask("extensions", "C14-EXT-NUMBER-ISNAN", "Number.isNaN", "call")
}
