#!/bin/bash
# Sensitivity runner for C14: applies each sens/*.diff to a scratch worktree of /repo, regenerates
# inline.go when the diff touches the generator input, runs otto's own suite (must stay green,
# otherwise the mutant is uninteresting) and then the quick check (must exit 1).
# usage: props/c14/sens/run.sh [name ...]
export GOFLAGS=-mod=mod GOPROXY=off GOSUMDB=off GOTOOLCHAIN=local
HERE="$(cd "$(dirname "$0")" && pwd)"; ROOT="$(cd "$HERE/../../.." && pwd)"
names=("$@"); [ ${#names[@]} -eq 0 ] && names=($(cd "$HERE" && ls *.diff | sed 's/\.diff$//'))
for n in "${names[@]}"; do
  wt=/tmp/wt-c14-sens-$n
  git -C /repo worktree remove --force "$wt" >/dev/null 2>&1
  git -C /repo worktree add --detach "$wt" HEAD >/dev/null 2>&1 || { echo "$n: cannot create worktree"; continue; }
  ( cd "$wt" && git apply "$HERE/$n.diff" ) || { echo "$n: diff does not apply"; continue; }
  if grep -q "tools/gen-jscore" "$HERE/$n.diff"; then ( cd "$wt" && go run ./tools/gen-jscore -output inline.go ) || { echo "$n: generator failed"; continue; }; fi
  suite=green; ( cd "$wt" && go test -vet=off -count=1 ./... >/tmp/c14-sens-$n.suite.log 2>&1 ) || suite=RED
  out=$(cd "$ROOT" && VERIF_REPO="$wt" ./check C14 quick 2>&1); code=$?
  first=$(echo "$out" | grep -A1 "^VIOLATION" | sed -n 2p | cut -c1-260)
  nviol=$(echo "$out" | grep -c "^VIOLATION")
  echo "$n: otto-suite=$suite check-exit=$code violations=$nviol first:$first"
  git -C /repo worktree remove --force "$wt" >/dev/null 2>&1
done
git -C /repo worktree prune
