package c06

import (
	"fmt"
	"math"
	"math/big"
	"strconv"
	"strings"
	"testing"

	"pgregory.net/rapid"

	"verif/lib/harness"
	"verif/lib/m06"
)

// ---- facet: numeric literals in source text (7.8.3, B.1.1) --------------------------------------------

type litCase struct {
	Text string `json:"text"` // ASCII source text of the expression
	Kind string `json:"kind"`
	Mut  string `json:"mut"`
}

type litTok struct {
	sign byte // '+' or '-' for operator tokens, 0 for a literal
	val  float64
	kind m06.LitKind
	text string
}

// literalOracle decides what evaluating the ASCII text as an ES5 expression must give, for texts made
// of numeric literals and + / − only: ("value", v), ("error", _) when the text is not a valid
// program (7.8.3: a literal must not be followed by an IdentifierStart or a DecimalDigit; adjacent
// literals; dangling operator; lone '.'), or ("discard", reason) when the text leaves the modelled
// fragment (identifiers, member access, ++/--, octal-like 08/09).
func literalOracle(text string) (verdict string, val float64, toks []litTok, why string) {
	i := 0
	for i < len(text) {
		c := text[i]
		switch {
		case c >= '0' && c <= '9', c == '.' && i+1 < len(text) && text[i+1] >= '0' && text[i+1] <= '9':
			n, kind, v := m06.ScanNumericLiteral(text[i:])
			switch kind {
			case m06.LitNone: // "0x" without digits: '0' followed by an IdentifierStart
				return "error", 0, nil, "hex prefix without digits"
			case m06.LitOctalLike:
				return "discard", 0, nil, "octal-like literal with 8 or 9 (appendix B of the design)"
			}
			if i+n < len(text) && !m06.FollowOK(text[i+n]) {
				return "error", 0, nil, "literal followed by IdentifierStart or DecimalDigit"
			}
			toks = append(toks, litTok{val: v, kind: kind, text: text[i : i+n]})
			i += n
		case c == '+' || c == '-':
			if i+1 < len(text) && text[i+1] == c {
				return "discard", 0, nil, "++ / -- token"
			}
			toks = append(toks, litTok{sign: c})
			i++
		case c == '.':
			if i+1 < len(text) && !m06.FollowOK(text[i+1]) {
				return "discard", 0, nil, "member access"
			}
			return "error", 0, nil, "'.' not followed by an IdentifierName"
		default:
			return "discard", 0, nil, "identifier or other token"
		}
	}
	if len(toks) == 0 {
		return "discard", 0, nil, "empty"
	}
	// Expr := Unary (sign Unary)* ; Unary := sign* literal
	pos := 0
	unary := func() (float64, bool) {
		neg := false
		for pos < len(toks) && toks[pos].sign != 0 {
			if toks[pos].sign == '-' {
				neg = !neg
			}
			pos++
		}
		if pos >= len(toks) {
			return 0, false
		}
		v := toks[pos].val
		pos++
		if neg {
			v = -v
		}
		return v, true
	}
	acc, ok := unary()
	if !ok {
		return "error", 0, toks, "dangling operator"
	}
	for pos < len(toks) {
		if toks[pos].sign == 0 {
			return "error", 0, toks, "two literals in a row"
		}
		op := toks[pos].sign
		pos++
		v, ok := unary()
		if !ok {
			return "error", 0, toks, "dangling operator"
		}
		if op == '+' {
			acc += v
		} else {
			acc -= v
		}
	}
	return "value", acc, toks, ""
}

func exactIntOfLiteral(tok litTok) *big.Int {
	switch tok.kind {
	case m06.LitHex:
		v, _ := new(big.Int).SetString(tok.text[2:], 16)
		return v
	case m06.LitOctal:
		v, _ := new(big.Int).SetString(tok.text[1:], 8)
		return v
	case m06.LitDecimal:
		if strings.ContainsAny(tok.text, ".eE") {
			return nil
		}
		v, _ := new(big.Int).SetString(tok.text, 10)
		return v
	}
	return nil
}

func checkLiteral(c litCase) harness.Outcome {
	o := harness.Outcome{Classes: []string{"kind:" + c.Kind, "mut:" + c.Mut}}
	verdict, want, toks, why := literalOracle(c.Text)
	if verdict == "discard" {
		o.Discard = why
		return o
	}
	o.Nontrivial = !(len(c.Text) <= 9 && strings.Trim(c.Text, "0123456789") == "" && !strings.HasPrefix(c.Text, "0"))
	o.Classes = append(o.Classes, "expect:"+verdict)
	js := "(function(v){return [v, String(v)]})(" + c.Text + ")"
	if verdict == "error" {
		o.Classes = append(o.Classes, "error:"+why)
		r := harness.Run(getVM(), js)
		if r.Panicked {
			vm = nil
			o.Fail = fmt.Sprintf("source text %q: %s", c.Text, r.Describe())
		} else if r.Err == nil {
			o.Fail = fmt.Sprintf("source text %q evaluates to %s, but it is not a valid program: %s (7.8.3)", c.Text, harness.Repr(r.Value), why)
		}
		return o
	}
	o.Classes = append(o.Classes, numClass(want))
	if len(toks) > 1 {
		o.Classes = append(o.Classes, "expression")
		for _, tk := range toks {
			if tk.sign == 0 && math.Abs(tk.val) > 1<<53 {
				// arithmetic on int64-held literals is C05's business (DESIGN A25)
				o.Discard = "arithmetic on an integer literal above 2^53"
				return o
			}
		}
	}
	if len(toks) == 1 && toks[0].sign == 0 {
		switch toks[0].kind {
		case m06.LitHex:
			o.Classes = append(o.Classes, "literal:hex")
		case m06.LitOctal:
			o.Classes = append(o.Classes, "literal:legacy-octal")
		default:
			o.Classes = append(o.Classes, "literal:decimal")
		}
	}
	excl := func(id string) { o.Excluded = append(o.Excluded, id) }
	// known classes that must not even be evaluated differently: none; evaluate
	el, bad := evalArray(js, 2)
	if bad != "" {
		if len(toks) == 1 {
			if ex := exactIntOfLiteral(toks[0]); ex != nil && toks[0].kind == m06.LitOctal && ex.BitLen() > 63 && harness.Known("C06-OCTAL-LITERAL-INT64") {
				excl("C06-OCTAL-LITERAL-INT64")
				return o
			}
		}
		o.Fail = fmt.Sprintf("source text %q: %s, ES5 7.8.3 gives %s", c.Text, bad, harness.NumRepr(want))
		return o
	}
	got, ok := numOf(el[0])
	gs, ok2 := strOf(el[1])
	if !ok || !ok2 {
		o.Fail = fmt.Sprintf("source text %q is not a number: %s", c.Text, harness.Repr(el[0]))
		return o
	}
	var single *litTok
	if len(toks) == 1 {
		single = &toks[0]
	}
	if !same(got, want) {
		if single != nil {
			ex := exactIntOfLiteral(*single)
			switch {
			case single.kind == m06.LitHex && ex.BitLen() > 63 && harness.Known("C06-HEX-LITERAL-ACCUM") && closeRel(got, want, float64(len(single.text))*math.Ldexp(1, -52)):
				excl("C06-HEX-LITERAL-ACCUM")
				return o
			case single.kind == m06.LitOctal && ex.BitLen() > 63 && harness.Known("C06-OCTAL-LITERAL-INT64"):
				excl("C06-OCTAL-LITERAL-INT64")
				return o
			case single.kind == m06.LitDecimal && intDigitsBeforePoint(harness.UTF16(single.text)) > 800 && harness.Known("C06-STRCONV-800"):
				excl("C06-STRCONV-800")
				return o
			}
		}
		o.Fail = fmt.Sprintf("source text %q evaluates to %s, ES5 7.8.3 gives %s", c.Text, harness.NumRepr(got), harness.NumRepr(want))
		return o
	}
	if ws := m06.NumberToString(got); gs != ws {
		if log10Zone(got) && harness.Known("C06-TOSTRING-LOG10") {
			excl("C06-TOSTRING-LOG10")
			return o
		}
		if single != nil {
			if ex := exactIntOfLiteral(*single); ex != nil && ex.BitLen() > 53 && ex.BitLen() <= 63 && harness.Known("C06-INT64-VALUE") {
				excl("C06-INT64-VALUE")
				if gs != ex.String() {
					o.Fail = fmt.Sprintf("String(%s) = %q: neither ToString of the double (%q) nor the digits of the integer", c.Text, gs, ws)
				}
				return o
			}
		}
		o.Fail = fmt.Sprintf("String(%s) = %q, but the literal denotes %s whose ToString is %q (9.8.1)", c.Text, gs, harness.NumRepr(got), ws)
	}
	return o
}

var litMutChars = []uint16{'0', '1', '7', '8', '9', '.', '.', 'e', 'E', '+', '-', 'x', 'X', '_', 'a', 'f', '$', 'n', 'p', 'b', 'o'}

func genLiteral(t *rapid.T) litCase {
	var text, kind string
	switch k := rapid.IntRange(0, 19).Draw(t, "lkind"); {
	case k < 11:
		text, kind = genDecimalCore(t)
		if kind == "Infinity" {
			text, kind = "1e400", "digits-exp"
		}
		// a DecimalIntegerLiteral has no leading zeros (those are the octal forms below)
		if len(text) > 1 && text[0] == '0' && text[1] >= '0' && text[1] <= '9' {
			text = strings.TrimLeft(text, "0")
			if text == "" || text[0] < '0' || text[0] > '9' {
				text = "0" + text
			}
		}
	case k < 15:
		text, kind = genHexCore(t)
	case k < 17:
		n := rapid.IntRange(1, 6).Draw(t, "octlen")
		if rapid.IntRange(0, 3).Draw(t, "octlong") == 0 {
			n = rapid.IntRange(18, 26).Draw(t, "octlen2")
		}
		b := make([]byte, n)
		for i := range b {
			b[i] = byte('0' + rapid.IntRange(0, 7).Draw(t, "od"))
		}
		text, kind = "0"+string(b), "legacy-octal"
	case k < 18:
		text, kind = rapid.SampledFrom([]string{"0", "0.", "0.0", ".0", "0e0", "0e5", "0E-5", "0.e1", "0x0", "00", "000", "07", "1", "9007199254740993", "9007199254740992", "9223372036854775807", "9223372036854775808", "18446744073709551616", "1152921504606846976", "123456789012345678", "0x7fffffffffffffff", "0x8000000000000000", "0x20000000000001", "0777777777777777777777", "01000000000000000000000", "1e21", "1e-7", "999999999999999900000", "5e-324", "2.4703282292062327e-324", "2.4703282292062328e-324", "1.7976931348623158e308", "1.7976931348623159e308"}).Draw(t, "lspecial"), "special"
	case k < 19:
		// a literal directly followed by a keyword operator: "3in[]" is a SyntaxError (7.8.3), "3 in[]" is not
		a, _ := genDecimalCore(t)
		if len(a) > 30 || a == "Infinity" || (len(a) > 1 && a[0] == '0' && a[1] >= '0' && a[1] <= '9') {
			a = "3"
		}
		if rapid.IntRange(0, 3).Draw(t, "hexrecv") == 0 {
			a = "0x1f"
		}
		text, kind = a+rapid.SampledFrom([]string{"in[]", "in{}", "instanceof Object", "in[1,2,3]"}).Draw(t, "kw"), "keyword-follows"
	default:
		// small sums and differences of literals: the tokenizer must split them correctly
		a, _ := genDecimalCore(t)
		if len(a) > 30 || a == "Infinity" || (len(a) > 1 && a[0] == '0' && a[1] != '.' && a[1] != 'e' && a[1] != 'E') {
			a = "1.5"
		}
		b := strconv.Itoa(rapid.IntRange(0, 99).Draw(t, "b"))
		text, kind = a+rapid.SampledFrom([]string{"+", "-", "+-", "-+", "+.", "-."}).Draw(t, "op")+b, "expression"
	}
	mut := "none"
	if kind != "keyword-follows" && rapid.IntRange(0, 9).Draw(t, "lmut") < 4 && len(text) < 120 {
		var u []uint16
		u, mut = mutate16(t, harness.UTF16(text), litMutChars)
		text, _ = harness.FromUTF16(u)
	}
	return litCase{Text: text, Kind: kind, Mut: mut}
}

var literalFacet = harness.Register(&harness.Facet[litCase]{
	Name: "numeric-literal",
	Rule: "rapid: source texts: DecimalLiteral alternatives (digits up to 1100 characters, leading/trailing dot, exponent forms up to ±400 and beyond, texts derived from doubles incl. exact midpoints), HexIntegerLiteral up to 30 digits, legacy octal 0[0-7]+ (B.1.1, which otto supports) up to 26 digits, special values, short sums/differences of literals, and literals directly followed by in / instanceof (SyntaxError by the 7.8.3 follow rule); 40% get one edit over [0-9 . e E + - x X _ a f $ n p b o]; oracle: own tokenizer for this fragment — exact value (rounded half-even) of every literal, IEEE sum for + and −, and SyntaxError when a literal is followed by an IdentifierStart or DecimalDigit, literals are adjacent, an operator dangles or a '.' stands alone; String(literal) must be ToString of the double; texts with identifiers, member access, ++/-- or 08/09 are discarded (counted); non-trivial = not a decimal integer of at most 9 digits; distinct by text",
	Quick: 7000, Thorough: 100000,
	Gen:   genLiteral,
	Check: checkLiteral,
})

func TestNumericLiteral(t *testing.T) { literalFacet.Run(t) }
