package c06

import (
	"fmt"
	"math"
	"testing"

	"pgregory.net/rapid"

	"verif/lib/es5"
	"verif/lib/harness"
	"verif/lib/m06"
)

// ---- facet: Number → String (9.8.1) and the round-trip laws -----------------------------------------

type toStrCase struct {
	X     string `json:"x"` // exact literal of the double
	Class string `json:"class"`
}

// log10Zone: the class of finding C06-TOSTRING-LOG10. otto picks the layout from
// math.Log10(|x|) >= 21 || < -6 instead of from the decimal exponent n of 9.8.1; the floating-point
// logarithm is rounded, so a few dozen doubles just below 1e21 and just below 1e-6 land on the wrong
// side. The class is stated from the spec side: |x| within a relative 2^-47 (about 40 ulps) below a layout threshold.
func log10Zone(x float64) bool {
	a := math.Abs(x)
	for _, t := range []float64{1e21, 1e-6} {
		if a < t && a >= t*(1-math.Ldexp(1, -47)) {
			return true
		}
	}
	return false
}

func checkToStr(c toStrCase) harness.Outcome {
	x := parseLit(c.X)
	o := harness.Outcome{Nontrivial: !plainInt(x), Classes: []string{"x:" + c.Class}}
	want := m06.NumberToString(x)
	if alt := es5.NumberToString(x); alt != want {
		o.Fail = fmt.Sprintf("MODEL DISAGREEMENT for %s: exact model %q, lib/es5 (strconv) %q", c.X, want, alt)
		return o
	}
	if isFinite(x) && x != 0 {
		d := m06.Shortest(math.Abs(x))
		o.Classes = append(o.Classes, fmt.Sprintf("k:%02d", len(d.Digits)))
		switch {
		case d.N > 21:
			o.Classes = append(o.Classes, "layout:exp+")
		case d.N <= -6:
			o.Classes = append(o.Classes, "layout:exp-")
		case d.N <= 0:
			o.Classes = append(o.Classes, "layout:0.000d")
		case len(d.Digits) <= d.N:
			o.Classes = append(o.Classes, "layout:integer")
		default:
			o.Classes = append(o.Classes, "layout:d.d")
		}
	} else {
		o.Classes = append(o.Classes, "layout:special")
	}
	l := jsNum(x)
	js := "(function(x){var s=String(x);return [s, x+'', x.toString(), x.toString(10), ''.concat(x), Number(s), parseFloat(s), +s]})(" + l + ")"
	el, bad := evalArray(js, 8)
	if bad != "" {
		o.Fail = fmt.Sprintf("%s: %s", js, bad)
		return o
	}
	forms := []string{"String(x)", "x+''", "x.toString()", "x.toString(10)", "''.concat(x)"}
	zone := log10Zone(x)
	for i, f := range forms {
		got, ok := strOf(el[i])
		if !ok {
			o.Fail = fmt.Sprintf("%s with x=%s is not a string: %s", f, c.X, harness.Repr(el[i]))
			return o
		}
		if got == want {
			continue
		}
		if zone && harness.Known("C06-TOSTRING-LOG10") {
			o.Excluded = []string{"C06-TOSTRING-LOG10"}
			continue
		}
		o.Fail = fmt.Sprintf("%s with x=%s gives %q, ES5 9.8.1 gives %q", f, c.X, got, want)
		return o
	}
	// round trip: the text converts back to the identical double (−0 prints as "0": +0 comes back)
	back := x
	if x == 0 {
		back = 0
	}
	for i, f := range []string{"Number(String(x))", "parseFloat(String(x))", "+String(x)"} {
		got, ok := numOf(el[5+i])
		if !ok || !same(got, back) {
			o.Fail = fmt.Sprintf("%s with x=%s gives %s, must give x back (9.8.1 note 1, 9.3.1)", f, c.X, harness.Repr(el[5+i]))
			return o
		}
	}
	return o
}

var toStrFacet = harness.Register(&harness.Facet[toStrCase]{
	Name: "number-to-string",
	Rule: "rapid: a double from {boundary pool, k significant digits × 10^e for k=1..17, ±40 ulps around 10^k and the layout thresholds 1e21/1e-6/1e-7, dyadic rationals, decimals ending in 5, integers up to 2^53·2^971, subnormals, random bit patterns}; String(x), x+'', x.toString(), x.toString(10), ''.concat(x) against the exact math/big model of 9.8.1 (smallest k that reads back, closest digits, layout), lib/es5.NumberToString verified against the same model on every case, and Number(String(x)), parseFloat(String(x)), +String(x) must return x; non-trivial = x is not an integer below 2^31; distinct by x bits",
	Quick: 9000, Thorough: 120000,
	Gen: func(t *rapid.T) toStrCase {
		x, class := genDouble(t)
		return toStrCase{X: harness.NumLit(x), Class: class}
	},
	Check: checkToStr,
})

func TestNumberToString(t *testing.T) { toStrFacet.Run(t) }
