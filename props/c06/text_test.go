package c06

import (
	"errors"
	"fmt"
	"math"
	"math/big"
	"strconv"
	"strings"
	"testing"

	"pgregory.net/rapid"

	"verif/lib/es5"
	"verif/lib/harness"
	"verif/lib/m06"
)

type textCase struct {
	Units []uint16 `json:"units"`
	Kind  string   `json:"kind"`
	Mut   string   `json:"mut"`
}

func show16(u []uint16) string {
	s := harness.JSString16(u)
	if len(s) > 160 {
		return s[:100] + "…(" + strconv.Itoa(len(u)) + " units)…" + s[len(s)-40:]
	}
	return s
}

func textClasses(c textCase, u []uint16) []string {
	cl := []string{"kind:" + c.Kind, "mut:" + c.Mut}
	switch n := len(u); {
	case n > 800:
		cl = append(cl, "len:>800")
	case n > 100:
		cl = append(cl, "len:101..800")
	case n > 20:
		cl = append(cl, "len:21..100")
	}
	for _, ch := range u {
		if m06.IsStrWS(ch) {
			cl = append(cl, fmt.Sprintf("ws:U+%04X", ch))
			break
		}
	}
	return cl
}

func numClass(v float64) string {
	switch {
	case math.IsNaN(v):
		return "result:NaN"
	case math.IsInf(v, 0):
		return "result:Infinity"
	case v == 0:
		return "result:zero"
	case math.Abs(v) < 2.2250738585072014e-308:
		return "result:subnormal"
	}
	return "result:finite"
}

// goReading is the documented distortion of findings C06-TONUMBER-GO-SYNTAX / C06-PARSEFLOAT-GO-SYNTAX:
// what Go's strconv grammar (case-insensitive inf/infinity, digit-separating underscores, hexadecimal
// floats with a p exponent, base prefixes) makes of the text.
func goReadings(s string) []float64 {
	var out []float64
	if f, err := strconv.ParseFloat(s, 64); err == nil || errors.Is(err, strconv.ErrRange) {
		out = append(out, f)
	}
	if n, err := strconv.ParseInt(s, 0, 64); err == nil {
		out = append(out, float64(n))
	}
	return out
}

func inGoSyntaxClass(u []uint16) bool {
	l := asciiLower(u)
	return strings.Contains(l, "inf") || strings.Contains(l, "_") || (strings.Contains(l, "0x") && strings.Contains(l, "p"))
}

func trimmedUTF8(u []uint16) string {
	i, j := 0, len(u)
	for i < j && m06.IsStrWS(u[i]) {
		i++
	}
	for j > i && m06.IsStrWS(u[j-1]) {
		j--
	}
	s, _ := harness.FromUTF16(u[i:j])
	return s
}

func hexValueAtLeast2p63(u []uint16) bool {
	l := asciiLower(u)
	l = strings.Trim(l, "\xff \t\n\v\f\r")
	if !strings.HasPrefix(l, "0x") {
		return false
	}
	v, ok := new(big.Int).SetString(l[2:], 16)
	return ok && v.BitLen() > 63
}

// ---- facet: ToNumber applied to strings (9.3.1) -------------------------------------------------------

func checkToNumber(c textCase) harness.Outcome {
	u := c.Units
	want := m06.StringToNumber(u)
	o := harness.Outcome{Nontrivial: !isPlainDigits(u), Classes: append(textClasses(c, u), numClass(want))}
	if alt := es5.StringToNumber(u); !same(alt, want) {
		o.Fail = fmt.Sprintf("MODEL DISAGREEMENT ToNumber(%s): exact model %s, lib/es5 %s", show16(u), harness.NumRepr(want), harness.NumRepr(alt))
		return o
	}
	lit := harness.JSString16(u)
	js := "(function(s){return [Number(s), +s, s-0, s*1, new Number(s).valueOf()]})(" + lit + ")"
	el, bad := evalArray(js, 5)
	if bad != "" {
		o.Fail = fmt.Sprintf("ToNumber(%s): %s", show16(u), bad)
		return o
	}
	forms := []string{"Number(s)", "+s", "s-0", "s*1", "new Number(s).valueOf()"}
	for i, f := range forms {
		got, ok := numOf(el[i])
		if !ok {
			o.Fail = fmt.Sprintf("%s with s=%s is not a number: %s", f, show16(u), harness.Repr(el[i]))
			return o
		}
		if same(got, want) {
			continue
		}
		// known findings, each with its narrow class
		if math.IsNaN(want) && inGoSyntaxClass(u) && harness.Known("C06-TONUMBER-GO-SYNTAX") {
			okk := false
			for _, g := range goReadings(trimmedUTF8(u)) {
				if same(g, got) {
					okk = true
				}
			}
			if okk {
				o.Excluded = []string{"C06-TONUMBER-GO-SYNTAX"}
				continue
			}
		}
		if math.IsNaN(got) && hexValueAtLeast2p63(u) && harness.Known("C06-TONUMBER-HEX-INT64") {
			o.Excluded = []string{"C06-TONUMBER-HEX-INT64"}
			continue
		}
		if intDigitsBeforePoint(u) > 800 && harness.Known("C06-STRCONV-800") {
			o.Excluded = []string{"C06-STRCONV-800"}
			continue
		}
		o.Fail = fmt.Sprintf("%s with s=%s gives %s, ES5 9.3.1 gives %s", f, show16(u), harness.NumRepr(got), harness.NumRepr(want))
		return o
	}
	return o
}

var toNumberFacet = harness.Register(&harness.Facet[textCase]{
	Name: "string-to-number",
	Rule: "rapid: strings from the StringNumericLiteral grammar: every StrDecimalLiteral alternative (digits of 1..1100 characters with leading zeros, fraction, exponent with e/E, sign, leading zeros, magnitudes 0..25, 285..400 and beyond int32), Infinity, signs, hex literals up to 30 digits, texts derived from doubles (shortest form, exact expansion, the exact midpoint between adjacent doubles and ±1 in a digit 0..30 or 700..1500 places further right, truncated expansions), long sticky shapes (\"0.\" + 700..1500 zeros + digits + an exponent that scales them back; a tie integer + \".\" + 700..1500 zeros + one digit; tie−1 followed by 700..1500 nines; a scaled-down tie), 0..3 leading/trailing StrWhiteSpaceChar of every kind; 40% get one edit (insert/delete/replace/duplicate/swap over digits, . e E + - x _ letters of Infinity/NaN, NUL, and 45 non-ASCII look-alikes: KELVIN SIGN, dotted/dotless I, long s, fullwidth / Arabic-Indic / Devanagari / Thai digits, superscripts, Roman numerals, Greek and Cyrillic a e x, ZWSP, NEL, WORD JOINER, MINUS SIGN, fullwidth + and .) and 10% come from a near-miss pool; Number(s), +s, s-0, s*1, new Number(s).valueOf() against a hand-written recogniser with exact rational value rounded half-even (lib/es5.StringToNumber verified against it on every case); non-trivial = not 1..15 plain digits; distinct by string",
	Quick: 9000, Thorough: 120000,
	Gen: func(t *rapid.T) textCase {
		u, kind, mut := genWholeString(t)
		return textCase{Units: u, Kind: kind, Mut: mut}
	},
	Check: checkToNumber,
})

func TestStringToNumber(t *testing.T) { toNumberFacet.Run(t) }

// ---- facet: parseFloat (15.1.2.3) ---------------------------------------------------------------------

func checkParseFloat(c textCase) harness.Outcome {
	u := c.Units
	want := m06.ParseFloat(u)
	o := harness.Outcome{Nontrivial: !isPlainDigits(u), Classes: append(textClasses(c, u), numClass(want))}
	if alt := es5.ParseFloat(u); !same(alt, want) {
		o.Fail = fmt.Sprintf("MODEL DISAGREEMENT parseFloat(%s): exact model %s, lib/es5 %s", show16(u), harness.NumRepr(want), harness.NumRepr(alt))
		return o
	}
	r := harness.Run(getVM(), "parseFloat("+harness.JSString16(u)+")")
	if r.Panicked || r.Err != nil {
		if r.Panicked {
			vm = nil
		}
		o.Fail = fmt.Sprintf("parseFloat(%s): %s", show16(u), r.Describe())
		return o
	}
	got, ok := numOf(r.Value)
	if !ok {
		o.Fail = fmt.Sprintf("parseFloat(%s) is not a number: %s", show16(u), harness.Repr(r.Value))
		return o
	}
	if same(got, want) {
		return o
	}
	if cls := parseFloatGoClass(u, want); cls != "" && harness.Known("C06-PARSEFLOAT-STRCONV") {
		o.Excluded = []string{"C06-PARSEFLOAT-STRCONV"}
		o.Classes = append(o.Classes, "excluded:"+cls)
		return o
	}
	if intDigitsBeforePoint(u) > 800 && harness.Known("C06-STRCONV-800") {
		o.Excluded = []string{"C06-STRCONV-800"}
		return o
	}
	o.Fail = fmt.Sprintf("parseFloat(%s) = %s, ES5 15.1.2.3 gives %s (longest prefix that is a StrDecimalLiteral)", show16(u), harness.NumRepr(got), harness.NumRepr(want))
	return o
}

// parseFloatGoClass names the sub-class of finding C06-PARSEFLOAT-STRCONV a string falls in ("" = none).
// otto's parseFloat rejects anything containing "infinity" or ending in "inf"/"Inf", then searches
// the longest prefix that strconv.ParseFloat accepts *without a range error*: Go spellings
// (inf/infinity in any case, underscores, hex floats) are accepted and a literal that overflows is cut
// back until it fits.
func parseFloatGoClass(u []uint16, want float64) string {
	l := asciiLower(u)
	switch {
	case strings.Contains(l, "inf"):
		return "inf-spelling"
	case strings.Contains(l, "_"):
		return "underscore"
	case strings.Contains(l, "0x") && strings.Contains(l, "p"):
		return "hex-float"
	case math.IsInf(want, 0):
		return "overflowing-literal"
	}
	return ""
}

var parseFloatFacet = harness.Register(&harness.Facet[textCase]{
	Name: "parsefloat",
	Rule: "rapid: the strings of string-to-number, 40% followed by junk (px, e, e+, ., .., _1, x, blank+digit, Infinity, -, +1, n, p1, non-ASCII, NUL…); oracle: 15.1.2.3 — skip leading StrWhiteSpaceChar, longest prefix that is a StrDecimalLiteral (incomplete exponent not taken), exact value rounded half-even, NaN if none (lib/es5.ParseFloat verified against it on every case); non-trivial = not 1..15 plain digits; distinct by string",
	Quick: 8000, Thorough: 100000,
	Gen: func(t *rapid.T) textCase {
		u, kind, mut := genPrefixString(t)
		return textCase{Units: u, Kind: kind, Mut: mut}
	},
	Check: checkParseFloat,
})

func TestParseFloat(t *testing.T) { parseFloatFacet.Run(t) }

// ---- facet: parseInt (15.1.2.2) -----------------------------------------------------------------------

type parseIntCase struct {
	Units []uint16 `json:"units"`
	Radix fmtArg   `json:"radix"`
	Kind  string   `json:"kind"`
}

var radixOdd = []float64{0, 1, 37, -1, -2, 16.9, 2.5, 4294967296 + 2, 4294967296 + 16, 4294967296, -4294967296 + 10, 2147483648 + 8, 1e21, math.Inf(1), math.Inf(-1), math.NaN(), math.Copysign(0, -1), 0.9, 36.9, 9007199254740992}

func genRadixArg(t *rapid.T) fmtArg {
	switch k := rapid.IntRange(0, 19).Draw(t, "rkind"); {
	case k < 4:
		return fmtArg{Kind: "omit"}
	case k < 5:
		return fmtArg{Kind: "undef"}
	case k < 9:
		return fmtArg{Kind: "num", Lit: strconv.Itoa(rapid.SampledFrom([]int{2, 8, 10, 16, 36, 4, 32, 3, 7}).Draw(t, "rcommon"))}
	case k < 14:
		return fmtArg{Kind: "num", Lit: strconv.Itoa(rapid.IntRange(2, 36).Draw(t, "rany"))}
	case k < 17:
		return fmtArg{Kind: "num", Lit: harness.NumLit(rapid.SampledFrom(radixOdd).Draw(t, "rodd"))}
	case k < 18:
		return fmtArg{Kind: "str", Lit: rapid.SampledFrom([]string{"16", "0x10", " 8 ", "", "abc", "2", "1e1", "37"}).Draw(t, "rstr")}
	default:
		return fmtArg{Kind: rapid.SampledFrom([]string{"null", "true", "false"}).Draw(t, "rprim")}
	}
}

const radixDigits = "0123456789abcdefghijklmnopqrstuvwxyzABCDEFGHIJKLMNOPQRSTUVWXYZ"

func genParseIntCase(t *rapid.T) parseIntCase {
	c := parseIntCase{Radix: genRadixArg(t)}
	if rapid.IntRange(0, 3).Draw(t, "fromtext") == 0 {
		c.Units, c.Kind, _ = genPrefixString(t)
		c.Kind = "text:" + c.Kind
		return c
	}
	// digits of the effective radix
	r := 10
	if a := c.Radix.model(); a != nil {
		if rr := int(m06.ToInt32(*a)); rr >= 2 && rr <= 36 {
			r = rr
		}
	}
	if rapid.IntRange(0, 5).Draw(t, "otherradix") == 0 {
		r = rapid.SampledFrom([]int{2, 8, 10, 16, 36}).Draw(t, "r2")
	}
	var n int
	switch k := rapid.IntRange(0, 9).Draw(t, "ilen"); {
	case k < 4:
		n = rapid.IntRange(1, 5).Draw(t, "in")
	case k < 7:
		n = rapid.IntRange(6, 20).Draw(t, "in")
	case k < 9:
		n = rapid.IntRange(21, 40).Draw(t, "in")
	default:
		n = rapid.IntRange(41, 90).Draw(t, "in")
	}
	b := make([]byte, n)
	for i := range b {
		d := rapid.IntRange(0, r-1).Draw(t, "digit")
		if d >= 10 && rapid.Bool().Draw(t, "upper") {
			d += 26
		}
		b[i] = radixDigits[d]
	}
	s := string(b)
	c.Kind = "digits"
	if rapid.IntRange(0, 9).Draw(t, "special") == 0 {
		s = rapid.SampledFrom([]string{"0", "-0", "00", "9007199254740993", "9007199254740992", "9223372036854775807", "9223372036854775808", "9223372036854775809", "18446744073709551617", "18446744073709551616",
			"1180591620717411434497", "1180591620717411434496", "123456789012345678901", "12345678901234567890", "99999999999999999999", "100000000000000000000", "7fffffffffffffff", "8000000000000000", "100000000000008001",
			"1000000000000000000000000000000000000000000000000000000000000001", "zzzzzzzzzzzzz", "1y2p0ij32e8e7"}).Draw(t, "ispecial")
		c.Kind = "special"
	}
	if rapid.IntRange(0, 4).Draw(t, "lz") == 0 {
		s = strings.Repeat("0", rapid.IntRange(1, 3).Draw(t, "nlz")) + s
	}
	if rapid.IntRange(0, 4).Draw(t, "0x") == 0 {
		s = rapid.SampledFrom([]string{"0x", "0X"}).Draw(t, "pfx") + s
		c.Kind += "+0x"
	}
	s = rapid.SampledFrom([]string{"", "", "", "+", "-", "-"}).Draw(t, "sign") + s
	if rapid.IntRange(0, 4).Draw(t, "breaker") == 0 {
		// a character that is not a digit of the radix, somewhere
		p := rapid.IntRange(0, len(s)).Draw(t, "bpos")
		br := string(rune(rapid.SampledFrom([]uint16{'z', 'g', '9', '8', '2', '.', 'e', '_', ' ', '-', '+', 'x', 'G', 'Z'}).Draw(t, "bchar")))
		if rapid.Bool().Draw(t, "lookalike") {
			// a non-ASCII character that case folding or a Unicode category relates to a digit or letter
			br = string(rune(rapid.SampledFrom(lookAlikes).Draw(t, "bchar2")))
			if rapid.IntRange(0, 7).Draw(t, "astral") == 0 {
				br = rapid.SampledFrom([]string{"\U0001D7CE", "\U0001D7D1", "\U00010400", "\U00010428"}).Draw(t, "bastral")
			}
			c.Kind += "-lookalike"
		}
		s = s[:p] + br + s[p:]
		c.Kind += "+breaker"
	}
	u := append(genWS(t, "lws"), harness.UTF16(s)...)
	if rapid.IntRange(0, 3).Draw(t, "junk") == 0 {
		u = append(u, harness.UTF16(rapid.SampledFrom(junkSuffixes).Draw(t, "suffix"))...)
	}
	c.Units = u
	return c
}

var two63 = new(big.Int).Lsh(big.NewInt(1), 63)

func checkParseInt(c parseIntCase) harness.Outcome {
	u := c.Units
	ra := c.Radix.model()
	rnum := math.NaN()
	if ra != nil {
		rnum = *ra
	}
	want := m06.ParseInt(u, rnum)
	o := harness.Outcome{Classes: []string{"kind:" + c.Kind, "radixarg:" + c.Radix.Kind, numClass(want.Value)}}
	o.Nontrivial = !(isPlainDigits(u) && (c.Radix.Kind == "omit" || c.Radix.Lit == "10"))
	if want.Radix != 0 {
		o.Classes = append(o.Classes, fmt.Sprintf("R:%02d", want.Radix))
	} else {
		o.Classes = append(o.Classes, "R:invalid")
	}
	if want.Stripped {
		o.Classes = append(o.Classes, "0x-stripped")
	}
	if alt, _ := es5.ParseInt(u, rnum); !same(alt, want.Value) {
		o.Fail = fmt.Sprintf("MODEL DISAGREEMENT parseInt(%s, %s): exact model %s, lib/es5 %s", show16(u), c.Radix.render(), harness.NumRepr(want.Value), harness.NumRepr(alt))
		return o
	}
	args := harness.JSString16(u)
	if c.Radix.Kind != "omit" {
		args += ", " + c.Radix.render()
	}
	call := "parseInt(" + show16(u)
	if c.Radix.Kind != "omit" {
		call += ", " + c.Radix.render()
	}
	call += ")"
	if math.Abs(rnum) >= 1<<63 && !math.IsInf(rnum, 0) && harness.Known("C06-PARSEINT-RADIX-TOINT32") {
		o.Excluded = []string{"C06-PARSEINT-RADIX-TOINT32"}
		return o
	}
	el, bad := evalArray("(function(v){return [v, String(v)]})(parseInt("+args+"))", 2)
	if bad != "" {
		o.Fail = fmt.Sprintf("%s: %s", call, bad)
		return o
	}
	got, ok := numOf(el[0])
	gs, ok2 := strOf(el[1])
	if !ok || !ok2 {
		o.Fail = fmt.Sprintf("%s is not a number: %s", call, harness.Repr(el[0]))
		return o
	}
	excl := func(id string) { o.Excluded = append(o.Excluded, id) }
	valueOK := same(got, want.Value)
	// rounding at every digit step accumulates at most half an ulp per digit
	accTol := float64(want.Sig+2) * math.Ldexp(1, -52)
	switch {
	case valueOK:
	case want.Also != nil && same(got, *want.Also):
		// radix 10, more than 20 significant digits: digits after the 20th may be read as 0
		o.Classes = append(o.Classes, "allowed:20-digit-truncation")
		valueOK = true
	case got == 0 && want.Value == 0 && math.Signbit(want.Value) && harness.Known("C06-PARSEINT-NEGZERO"):
		excl("C06-PARSEINT-NEGZERO")
		valueOK = true
	case want.Exact != nil && want.Exact.Cmp(two63) >= 0 && harness.Known("C06-PARSEINT-ACCUM") && closeRel(got, want.Value, accTol):
		// beyond int64 the digits are accumulated in a double (value*radix+digit, rounded at every step)
		excl("C06-PARSEINT-ACCUM")
		valueOK = true
	case want.Approx && want.Exact != nil && want.Exact.BitLen() > 53 && closeRel(got, want.Value, accTol):
		// radix not in {2,4,8,10,16,32}: 15.1.2.2 allows an implementation-dependent approximation
		o.Classes = append(o.Classes, "allowed:approximation")
		valueOK = true
	}
	if !valueOK {
		o.Fail = fmt.Sprintf("%s = %s, ES5 15.1.2.2 gives %s", call, harness.NumRepr(got), harness.NumRepr(want.Value))
		if want.Also != nil {
			o.Fail += " (or " + harness.NumRepr(*want.Also) + ")"
		}
		return o
	}
	// the result must be that double in the language too: its text is ToString of the double
	if ws := m06.NumberToString(got); gs != ws {
		if log10Zone(got) && harness.Known("C06-TOSTRING-LOG10") {
			excl("C06-TOSTRING-LOG10")
			return o
		}
		if want.Exact != nil && want.Exact.BitLen() > 53 && want.Exact.Cmp(two63) < 0 && harness.Known("C06-INT64-VALUE") {
			// the Value holds an int64, String() prints all its digits
			excl("C06-INT64-VALUE")
			es := want.Exact.String()
			if want.Neg {
				es = "-" + es
			}
			if gs != es {
				o.Fail = fmt.Sprintf("String(%s) = %q: neither ToString of the double (%q) nor the digits of the integer", call, gs, ws)
			}
			return o
		}
		o.Fail = fmt.Sprintf("String(%s) = %q, but the value is %s whose ToString is %q (9.8.1)", call, gs, harness.NumRepr(got), ws)
	}
	return o
}

func closeRel(a, b, tol float64) bool {
	if math.IsNaN(a) || math.IsNaN(b) {
		return false
	}
	if a == b {
		return true
	}
	if math.IsInf(a, 0) || math.IsInf(b, 0) {
		return false
	}
	return math.Abs(a-b) <= tol*math.Max(math.Abs(a), math.Abs(b))
}

var parseIntFacet = harness.Register(&harness.Facet[parseIntCase]{
	Name: "parseint",
	Rule: "rapid: radix argument {omitted, undefined, each of 2..36, 0, 1, 37, negative, fractional, 2^32+2, 2^32+16, 2^31+8, 2^53, 1e21, ±Infinity, NaN, -0, numeric strings incl. \"0x10\", null, booleans} × string {1..90 digits of the effective radix in both letter cases, special integers around 2^53 / 2^63 / 2^64 / 20-21 digits, leading zeros, 0x/0X prefix, sign, leading white space of every kind, a character outside the radix inserted anywhere (half of the time a non-ASCII look-alike that case folding or a Unicode category relates to a digit or radix letter: U+212A, U+0130, U+0131, U+017F, fullwidth and other-script digits and letters, astral digits), junk suffix incl. the same look-alikes; 25% the parseFloat strings}; oracle: 15.1.2.2 with exact big-integer value rounded half-even, -0 for \"-0\"; mandated exactly for radix 2/4/8/16/32 and for radix 10 up to 20 significant digits (beyond: also the value with later digits read as 0), other radixes exactly below 2^53 and within (digits+2)·2^-52 relative above (implementation-dependent approximation allowed); String(result) must be ToString of that double; non-trivial = not (1..15 plain digits with radix omitted or 10); distinct by (string, radix argument)",
	Quick: 9000, Thorough: 120000,
	Gen:   genParseIntCase,
	Check: checkParseInt,
})

func TestParseInt(t *testing.T) { parseIntFacet.Run(t) }
