package c06

import (
	"fmt"
	"math"
	"strconv"
	"strings"
	"testing"

	"pgregory.net/rapid"

	"verif/lib/harness"
	"verif/lib/m06"
)

// ---- arguments of the formatting functions ----------------------------------------------------------

type fmtArg struct {
	Kind string `json:"kind"` // omit undef num str null true false
	Lit  string `json:"lit,omitempty"`
}

func (a fmtArg) render() string {
	switch a.Kind {
	case "omit":
		return ""
	case "undef":
		return "undefined"
	case "num":
		return a.Lit
	case "str":
		return harness.JSString(a.Lit)
	case "null":
		return "null"
	case "true", "false":
		return a.Kind
	}
	panic("fmtArg kind " + a.Kind)
}

// model gives the argument after ToNumber, nil for undefined / omitted.
func (a fmtArg) model() *float64 {
	switch a.Kind {
	case "omit", "undef":
		return nil
	case "num":
		return m06.Num(parseLit(a.Lit))
	case "str":
		return m06.Num(m06.StringToNumber(harness.UTF16(a.Lit)))
	case "null", "false":
		return m06.Num(0)
	case "true":
		return m06.Num(1)
	}
	panic("fmtArg kind " + a.Kind)
}

var oddArgs = []float64{-1, -0.5, -0.9, math.Copysign(0, -1), 0.5, 0.9, 1.5, 19.99, 20.5, 20.999, 21, 21.5, 22, 36, 37, 100, 101, 1000, 2147483647, 2147483648, 4294967296, 4294967298, -2147483648, 1e21, -1e21, math.Inf(1), math.Inf(-1), math.NaN(), 5e-324}
var strArgs = []string{"0", "5", "20", "21", " 7 ", "0x10", "1e1", "", "abc", "-1", "2.9", "Infinity"}

func genFmtArg(t *rapid.T, lo, hi int) fmtArg {
	switch k := rapid.IntRange(0, 19).Draw(t, "akind"); {
	case k < 11:
		return fmtArg{Kind: "num", Lit: strconv.Itoa(rapid.IntRange(lo, hi).Draw(t, "inrange"))}
	case k < 13:
		return fmtArg{Kind: "omit"}
	case k < 14:
		return fmtArg{Kind: "undef"}
	case k < 17:
		return fmtArg{Kind: "num", Lit: harness.NumLit(rapid.SampledFrom(oddArgs).Draw(t, "odd"))}
	case k < 18:
		return fmtArg{Kind: "str", Lit: rapid.SampledFrom(strArgs).Draw(t, "sarg")}
	default:
		return fmtArg{Kind: rapid.SampledFrom([]string{"null", "true", "false"}).Draw(t, "parg")}
	}
}

// ---- facet: toFixed / toExponential / toPrecision ---------------------------------------------------

type fmtCase struct {
	Fn     string `json:"fn"`
	X      string `json:"x"`
	Class  string `json:"class"`
	Arg    fmtArg `json:"arg"`
	IntLit bool   `json:"intlit,omitempty"` // write x as a plain integer literal (otto then holds an int64, not a float64)
}

// recv renders the receiver: the exact float literal, or - for integers up to 2^53 on request - the
// plain decimal integer, which otto's lexer stores as an int64 (a different formatting path).
func recv(x float64, intLit bool) (string, bool) {
	if intLit && m06.IsIntegral(x) && math.Abs(x) <= 1<<53 && !(x == 0 && math.Signbit(x)) {
		return "(" + m06.BigOfIntegral(x).String() + ")", true
	}
	return jsNum(x), false
}

// padExp2 is the documented distortion of finding C06-EXPONENT-PAD: at least two exponent digits
// are written (strconv's %e; pinned by otto's own number_test.go).
func padExp2(s string) string {
	i := strings.LastIndexAny(s, "eE")
	if i < 0 || i+2 >= len(s) {
		return s
	}
	if len(s)-(i+2) == 1 {
		return s[:i+2] + "0" + s[i+2:]
	}
	return s
}

func checkFmt(c fmtCase) harness.Outcome {
	x := parseLit(c.X)
	arg := c.Arg.model()
	var want m06.Res
	var info m06.Info
	switch c.Fn {
	case "toFixed":
		want, info = m06.ToFixed(x, arg)
	case "toExponential":
		want, info = m06.ToExponential(x, arg)
	case "toPrecision":
		want, info = m06.ToPrecision(x, arg)
	default:
		panic("fn " + c.Fn)
	}
	inRangeInt := arg != nil && *arg == math.Trunc(*arg) && want.Throws == ""
	o := harness.Outcome{Nontrivial: !(plainInt(x) && inRangeInt) || info.Tie, Classes: []string{c.Fn, "x:" + c.Class, "arg:" + c.Arg.Kind}}
	switch {
	case want.Throws != "":
		o.Classes = append(o.Classes, c.Fn+":RangeError")
	case info.Tie:
		o.Classes = append(o.Classes, c.Fn+":exact-tie")
	case info.Big:
		o.Classes = append(o.Classes, "toFixed:>=1e21")
	case info.Exp:
		o.Classes = append(o.Classes, "toPrecision:exponential")
	}
	if arg != nil && want.Throws == "" && isFinite(x) {
		o.Classes = append(o.Classes, fmt.Sprintf("%s:digits=%02d", c.Fn, int(m06.ToInteger(*arg))))
	}
	rcv, asInt := recv(x, c.IntLit)
	if asInt {
		o.Classes = append(o.Classes, "receiver:int-literal")
	}
	js := rcv + "." + c.Fn + "(" + c.Arg.render() + ")"
	call := fmt.Sprintf("%s.%s(%s)", rcv, c.Fn, c.Arg.render())
	excl := func(id string) { o.Excluded = append(o.Excluded, id) }
	clause := map[string]string{"toFixed": "15.7.4.5", "toExponential": "15.7.4.6", "toPrecision": "15.7.4.7"}[c.Fn]

	// Known finding: toExponential accepts fractionDigits > 20 and toPrecision accepts precision > 21
	// (no upper bound at all: a large argument makes strconv allocate that many digits, so such
	// calls are not even evaluated while the finding stands).
	if arg != nil && *arg > 20 && c.Fn != "toFixed" && !math.IsNaN(x) {
		id := map[string]string{"toExponential": "C06-TOEXP-RANGE", "toPrecision": "C06-TOPREC-RANGE"}[c.Fn]
		// (an infinite receiver must give "Infinity" whatever the argument, but otto hands the argument
		// to strconv first, which allocates a buffer of that size: 4 GB for 2^32)
		if harness.Known(id) && (want.Throws != "" || *arg > 200) {
			excl(id)
			if *arg <= 200 {
				if got := evalDesc(js); strings.HasPrefix(got, "panic:") {
					o.Fail = fmt.Sprintf("%s: %s", call, got)
				}
			}
			return o
		}
	}
	got := evalDesc(js)
	if got == want.String() {
		return o
	}
	if strings.HasPrefix(got, "panic:") || strings.HasPrefix(got, "not a string") {
		o.Fail = fmt.Sprintf("%s: %s, ES5 %s gives %s", call, got, clause, want)
		return o
	}
	// Compare modulo the known findings, each only while its witness still fails: the candidates are
	// the model's result passed through exactly the documented distortions.
	if want.Throws == "" && math.IsInf(x, 0) && c.Fn != "toFixed" && !info.Shortest && harness.Known("C06-FORMAT-INFINITY") {
		// there is no Infinity step: the value falls through to the range check (RangeError for a
		// negative argument, although 15.7.4.6 step 6 / 15.7.4.7 step 7 come first) and to strconv,
		// which spells infinities "+Inf" / "-Inf"
		excl("C06-FORMAT-INFINITY")
		outOfRange := arg != nil && (m06.ToInteger(*arg) < 0 || (c.Fn == "toPrecision" && m06.ToInteger(*arg) < 1))
		if got != "+Inf" && got != "-Inf" && !(outOfRange && got == "throws:RangeError") {
			o.Fail = fmt.Sprintf("%s = %q, ES5 %s gives %q", call, got, clause, want)
		}
		return o
	}
	if c.Fn == "toPrecision" && arg == nil && log10Zone(x) && harness.Known("C06-TOSTRING-LOG10") {
		excl("C06-TOSTRING-LOG10") // toPrecision(undefined) is ToString(x)
		return o
	}
	type cand struct {
		s    string
		excl []string
	}
	cands := []cand{{s: want.String()}}
	add := func(id string, f func(string) string) {
		if !harness.Known(id) {
			return
		}
		n := len(cands)
		for _, cd := range cands[:n] {
			if t := f(cd.s); t != cd.s {
				cands = append(cands, cand{t, append(append([]string(nil), cd.excl...), id)})
			}
		}
	}
	if want.Throws == "" {
		run := func() (m06.Res, m06.Info) {
			switch c.Fn {
			case "toFixed":
				return m06.ToFixed(x, arg)
			case "toExponential":
				return m06.ToExponential(x, arg)
			}
			return m06.ToPrecision(x, arg)
		}
		infos := map[string]m06.Info{want.S: info}
		if info.Tie && harness.Known("C06-FORMAT-TIES") {
			// strconv rounds an exact tie to even; ES5 picks the larger n
			m06.TieToEven = true
			down, dinfo := run()
			m06.TieToEven = false
			if down.S != want.S {
				cands = append(cands, cand{down.S, []string{"C06-FORMAT-TIES"}})
				infos[down.S] = dinfo
			}
		}
		if c.Fn == "toPrecision" && arg != nil && isFinite(x) && x != 0 {
			// %g switches to the exponential form for e < -4; ES5 for e < -6
			add("C06-TOPREC-THRESHOLD", func(s string) string {
				if in := infos[s]; in.HasE && (in.E == -5 || in.E == -6) {
					return in.Sign + m06.ExpForm(in.Digits, in.E)
				}
				return s
			})
		}
		if c.Fn == "toPrecision" && arg != nil {
			// %g drops trailing zeros of the fraction ("1" for (1).toPrecision(3)); pinned by otto's math_test.go
			add("C06-TOPREC-TRAILING-ZEROS", stripFractionZeros)
		}
		if c.Fn == "toExponential" || (c.Fn == "toPrecision" && arg != nil) {
			add("C06-EXPONENT-PAD", padExp2)
		}
		if info.NegZero {
			add("C06-FORMAT-NEGZERO", func(s string) string { return "-" + s })
		}
	}
	for _, cd := range cands {
		if got == cd.s {
			o.Excluded = append(o.Excluded, cd.excl...)
			return o
		}
	}
	o.Fail = fmt.Sprintf("%s = %q, ES5 %s gives %q", call, got, clause, want)
	if info.Tie {
		o.Fail += " (x×10^digits is an exact tie: \"if there are two such n, pick the larger n\")"
	}
	if len(cands) > 1 {
		o.Fail += fmt.Sprintf(" (also not one of the %d renderings that the still-open findings explain)", len(cands)-1)
	}
	return o
}

// stripFractionZeros is the documented distortion of finding C06-TOPREC-TRAILING-ZEROS.
func stripFractionZeros(s string) string {
	mant, exp := s, ""
	if i := strings.IndexByte(s, 'e'); i >= 0 {
		mant, exp = s[:i], s[i:]
	}
	if strings.Contains(mant, ".") {
		mant = strings.TrimRight(mant, "0")
		mant = strings.TrimSuffix(mant, ".")
	}
	return mant + exp
}

// tieArg picks the argument that makes x an exact tie / a near tie for fn, when there is one.
func tieArg(fn string, x float64) (int, bool) {
	if !isFinite(x) || x == 0 {
		return 0, false
	}
	d := m06.ExactDecimal(math.Abs(x))
	var a int
	switch fn {
	case "toFixed":
		a = len(d.Digits) - d.N - 1 // digits after the point, minus one
		if a < 0 || a > 20 {
			return 0, false
		}
	case "toExponential":
		a = len(d.Digits) - 2
		if a < 0 || a > 20 {
			return 0, false
		}
	default:
		a = len(d.Digits) - 1
		if a < 1 || a > 21 {
			return 0, false
		}
	}
	return a, true
}

var fmtFacet = harness.Register(&harness.Facet[fmtCase]{
	Name: "tofixed-toexponential-toprecision",
	Rule: "rapid: function × double (generator of number-to-string, which includes dyadic rationals J/2^m and decimals ending in 5) × argument {0..20 resp. 1..21 (for dyadic / short doubles preferably the digit count that makes the rounding position an exact tie or the last digit), omitted, undefined, -1, -0.5, -0, 0.5, 20.5, 21, 22, 100, 2^31, 2^32+2, ±1e21, ±Infinity, NaN, numeric and junk strings, null, booleans}; oracle: 15.7.4.5-7 executed literally on the exact binary value with math/big (n as close as possible, the larger n on a tie; sign rule; NaN/Infinity; >= 1e21; RangeError conditions in the specified order); non-trivial = x is not an integer below 2^31, or the argument is not an in-range integer, or an exact tie; distinct by (function, x bits, argument)",
	Quick: 12000, Thorough: 160000,
	Gen: func(t *rapid.T) fmtCase {
		fn := rapid.SampledFrom([]string{"toFixed", "toExponential", "toPrecision"}).Draw(t, "fn")
		x, class := genDouble(t)
		lo, hi := 0, 20
		if fn == "toPrecision" {
			lo, hi = 1, 21
		}
		c := fmtCase{Fn: fn, X: harness.NumLit(x), Class: class, IntLit: rapid.IntRange(0, 2).Draw(t, "intlit") == 0}
		if a, ok := tieArg(fn, x); ok && rapid.IntRange(0, 2).Draw(t, "usetie") > 0 {
			c.Arg = fmtArg{Kind: "num", Lit: strconv.Itoa(a)}
		} else {
			c.Arg = genFmtArg(t, lo, hi)
		}
		return c
	},
	Check: checkFmt,
})

func TestFormat(t *testing.T) { fmtFacet.Run(t) }

// ---- facet: toString(radix) -------------------------------------------------------------------------

type radixCase struct {
	X      string `json:"x"`
	Arg    fmtArg `json:"radix"`
	IntLit bool   `json:"intlit,omitempty"`
}

func checkRadix(c radixCase) harness.Outcome {
	x := parseLit(c.X)
	arg := c.Arg.model()
	want, unique := m06.ToStringRadix(x, arg)
	r := 10
	if arg != nil && want.Throws == "" {
		r = int(m06.ToInteger(*arg))
	}
	o := harness.Outcome{Nontrivial: !(plainInt(x) && r == 10), Classes: []string{"arg:" + c.Arg.Kind}}
	switch {
	case want.Throws != "":
		o.Classes = append(o.Classes, "RangeError")
	default:
		o.Classes = append(o.Classes, fmt.Sprintf("radix:%02d", r))
		switch a := math.Abs(x); {
		case !isFinite(x):
			o.Classes = append(o.Classes, "x:special")
		case a <= 1<<53:
			o.Classes = append(o.Classes, "x:<=2^53")
		case a < 1<<63:
			o.Classes = append(o.Classes, "x:2^53..2^63")
		default:
			o.Classes = append(o.Classes, "x:>=2^63")
		}
	}
	rcv, asInt := recv(x, c.IntLit)
	if asInt {
		o.Classes = append(o.Classes, "receiver:int-literal")
	}
	js := rcv + ".toString(" + c.Arg.render() + ")"
	call := fmt.Sprintf("%s.toString(%s)", rcv, c.Arg.render())
	if want.Throws == "" && r != 10 && math.Abs(x) >= 1<<63 && isFinite(x) && harness.Known("C06-RADIX-INT64") {
		// the conversion goes through int64(float): out of range, the result is platform garbage
		o.Excluded = []string{"C06-RADIX-INT64"}
		if got := evalDesc(js); strings.HasPrefix(got, "panic:") {
			o.Fail = call + ": " + got
		}
		return o
	}
	got := evalDesc(js)
	if unique || want.Throws != "" {
		if got != want.String() {
			o.Fail = fmt.Sprintf("%s = %q, ES5 15.7.4.2 gives %q", call, got, want)
		}
		return o
	}
	// |x| > 2^53 and a radix that is not a power of two: the digit algorithm is implementation
	// dependent (15.7.4.2); required here: digits of that radix only, and the text denotes an integer
	// that converts back to x.
	o.Classes = append(o.Classes, "read-back-only")
	v, ok := m06.ParseRadixInteger(got, r)
	if !ok {
		o.Fail = fmt.Sprintf("%s = %q is not an integer in radix %d", call, got, r)
		return o
	}
	neg := v.Sign() < 0
	back := m06.IntToDouble(v.Abs(v))
	if neg {
		back = -back
	}
	if !same(back, x) {
		o.Fail = fmt.Sprintf("%s = %q denotes %v, which is not x", call, got, back)
	}
	return o
}

var radixFacet = harness.Register(&harness.Facet[radixCase]{
	Name: "tostring-radix",
	Rule: "rapid: integer-valued double (0..2^53, any uint64, m·2^e up to the largest double, small; both signs) or NaN/±Infinity/±0 × radix {2..36, omitted, undefined, 0, 1, 37, -1, fractional, 2^32+2, ±Infinity, NaN, strings, null, booleans}; oracle: exact big-integer digits (radix 10: 9.8.1; RangeError outside 2..36 after ToInteger); for |x| > 2^53 with a radix that is not a power of two only the read-back law is required (15.7.4.2 leaves the algorithm implementation-dependent); fractions with radix ≠ 10 are kept out; non-trivial = not (integer below 2^31 with radix 10); distinct by (x bits, radix argument)",
	Quick: 6000, Thorough: 60000,
	Gen: func(t *rapid.T) radixCase {
		var x float64
		switch rapid.IntRange(0, 9).Draw(t, "xk") {
		case 0:
			x = rapid.SampledFrom([]float64{math.NaN(), math.Inf(1), math.Inf(-1), 0, math.Copysign(0, -1), 1, 35, 36, 1 << 53, 1<<53 + 2, 1 << 63, 1 << 64, 1e21, 1e22, math.MaxFloat64, 1<<63 - 1024, 4294967295, 4294967296}).Draw(t, "xs")
		case 1, 2, 3:
			x = float64(rapid.Int64Range(0, 1<<53).Draw(t, "i53"))
		case 4, 5:
			x = float64(rapid.Uint64().Draw(t, "u64"))
		case 6:
			x = math.Ldexp(float64(rapid.Int64Range(1, 1<<53).Draw(t, "im")), rapid.IntRange(0, 971).Draw(t, "ie"))
		default:
			x = float64(rapid.IntRange(0, 100000).Draw(t, "ismall"))
		}
		if !math.IsNaN(x) && rapid.IntRange(0, 2).Draw(t, "neg") == 0 {
			x = -x
		}
		return radixCase{X: harness.NumLit(x), Arg: genFmtArg(t, 2, 36), IntLit: rapid.IntRange(0, 2).Draw(t, "intlit") == 0}
	},
	Check: checkRadix,
})

func TestToStringRadix(t *testing.T) { radixFacet.Run(t) }
