package c06

import (
	"math"
	"math/big"
	"strconv"
	"strings"

	"pgregory.net/rapid"

	"verif/lib/harness"
	"verif/lib/m06"
)

// ---- generators of numeric texts ---------------------------------------------------------------------

func genDigits(t *rapid.T, label string) string {
	var n int
	switch k := rapid.IntRange(0, 49).Draw(t, label+"-len"); {
	case k < 30:
		n = rapid.IntRange(1, 5).Draw(t, label+"-n")
	case k < 40:
		n = rapid.IntRange(6, 25).Draw(t, label+"-n")
	case k < 46:
		n = rapid.IntRange(26, 60).Draw(t, label+"-n")
	case k < 49:
		n = rapid.IntRange(300, 800).Draw(t, label+"-n")
	default:
		n = rapid.IntRange(801, 1500).Draw(t, label+"-n")
	}
	s := digitString(t, n, label)
	if rapid.IntRange(0, 4).Draw(t, label+"-lz") == 0 {
		s = strings.Repeat("0", rapid.IntRange(1, 4).Draw(t, label+"-nz")) + s
	}
	return s
}

func genExponent(t *rapid.T) string {
	e := rapid.SampledFrom([]string{"e", "E"}).Draw(t, "echar") + rapid.SampledFrom([]string{"", "+", "-"}).Draw(t, "esign")
	if rapid.IntRange(0, 9).Draw(t, "elz") == 0 {
		e += strings.Repeat("0", rapid.IntRange(1, 3).Draw(t, "enz"))
	}
	switch k := rapid.IntRange(0, 19).Draw(t, "ekind"); {
	case k < 10:
		e += strconv.Itoa(rapid.IntRange(0, 25).Draw(t, "eval"))
	case k < 15:
		e += strconv.Itoa(rapid.IntRange(285, 330).Draw(t, "eval"))
	case k < 18:
		e += strconv.Itoa(rapid.IntRange(331, 400).Draw(t, "eval"))
	default:
		e += rapid.SampledFrom([]string{"1000", "2147483647", "2147483648", "4294967296", "99999999999999999999"}).Draw(t, "ehuge")
	}
	return e
}

// decimalOfDouble writes 0.D × 10^N in one of the valid spellings.
func spellDecimal(t *rapid.T, d m06.Dec) string {
	ds, n := d.Digits, d.N
	if ds == "" {
		ds, n = "0", 1
	}
	switch {
	case n > 0 && n <= 40 && rapid.Bool().Draw(t, "plain"):
		if len(ds) <= n {
			return ds + strings.Repeat("0", n-len(ds))
		}
		return ds[:n] + "." + ds[n:]
	case n <= 0 && n > -30 && rapid.Bool().Draw(t, "plain0"):
		return rapid.SampledFrom([]string{"0.", "."}).Draw(t, "lead0") + strings.Repeat("0", -n) + ds
	}
	// scientific with the point after the first digit, or all digits as an integer
	if rapid.Bool().Draw(t, "intmant") {
		return ds + "e" + strconv.Itoa(n-len(ds))
	}
	m := ds[:1]
	if len(ds) > 1 {
		m += "." + ds[1:]
	}
	ind := rapid.SampledFrom([]string{"e", "E", "e+", "E+"}).Draw(t, "ech2")
	if n-1 < 0 {
		ind = ind[:1]
	}
	return m + ind + strconv.Itoa(n-1)
}

// genDecimalCore produces one StrUnsignedDecimalLiteral (which is also a DecimalLiteral of 7.8.3
// unless it has leading zeros) and names the alternative.
func genDecimalCore(t *rapid.T) (string, string) {
	switch k := rapid.IntRange(0, 19).Draw(t, "alt"); {
	case k < 3:
		return genDigits(t, "i"), "digits"
	case k < 4:
		return genDigits(t, "i") + ".", "digits."
	case k < 6:
		return genDigits(t, "i") + "." + genDigits(t, "f"), "digits.digits"
	case k < 7:
		return "." + genDigits(t, "f"), ".digits"
	case k < 9:
		return genDigits(t, "i") + genExponent(t), "digits-exp"
	case k < 10:
		return genDigits(t, "i") + "." + genExponent(t), "digits.-exp"
	case k < 12:
		return genDigits(t, "i") + "." + genDigits(t, "f") + genExponent(t), "digits.digits-exp"
	case k < 13:
		return "." + genDigits(t, "f") + genExponent(t), ".digits-exp"
	case k < 14:
		return "Infinity", "Infinity"
	}
	if rapid.IntRange(0, 5).Draw(t, "longsticky") == 0 {
		return genLongSticky(t)
	}
	// derived from a double: hard cases for correct rounding
	x, _ := genDouble(t)
	x = math.Abs(x)
	if !isFinite(x) || x == 0 {
		x = 1
	}
	switch rapid.IntRange(0, 5).Draw(t, "derive") {
	case 0:
		return m06.NumberToString(x), "double:shortest"
	case 1:
		return spellDecimal(t, m06.ExactDecimal(x)), "double:exact-expansion"
	case 2, 3, 4:
		// the exact midpoint between x and the next double, or one unit in a far digit off it
		y := math.Nextafter(x, math.Inf(1))
		if math.IsInf(y, 0) {
			return spellDecimal(t, m06.ExactDecimal(x)), "double:exact-expansion"
		}
		d := midpointDecimal(x, y)
		switch rapid.IntRange(0, 2).Draw(t, "off") {
		case 0:
			return spellDecimal(t, d), "double:midpoint"
		case 1:
			d.Digits += strings.Repeat("0", farPad(t, "pad")) + "1"
			return spellDecimal(t, d), "double:midpoint+"
		default:
			// one unit below in the last digit: the last digit of a midpoint expansion is 5
			d.Digits = d.Digits[:len(d.Digits)-1] + "4" + strings.Repeat("9", farPad(t, "pad9"))
			return spellDecimal(t, d), "double:midpoint-"
		}
	default:
		// 17..25 correctly truncated digits of the exact expansion
		d := m06.ExactDecimal(x)
		n := rapid.IntRange(15, 25).Draw(t, "trunc")
		if len(d.Digits) > n {
			d.Digits = strings.TrimRight(d.Digits[:n], "0")
			if d.Digits == "" {
				d.Digits = "1"
			}
		}
		return spellDecimal(t, d), "double:truncated-expansion"
	}
}

// farPad: how far to the right of a rounding tie the deciding digit sits: near (0..30) or beyond any
// fixed digit budget an implementation might apply (700..1500; 2^-1074 itself has 1074 fraction digits).
func farPad(t *rapid.T, label string) int {
	if rapid.IntRange(0, 2).Draw(t, label+"-far") == 0 {
		return rapid.IntRange(700, 1500).Draw(t, label+"-n")
	}
	return rapid.IntRange(0, 30).Draw(t, label+"-n")
}

// genLongSticky: very long literals in which digits far to the right decide the value: a run of
// 700..1500 zeros after the point followed by significant digits and an exponent that scales them
// back into range ("0." + 1200 zeros + "1e1201" is 1), an integer that is an exact tie between two
// doubles followed by a long run of zeros and one more digit ("9007199254740993." + 1100 zeros +
// "1" is 2^53+2), or the same shapes with the long run inside the integer part of a scaled-down
// number.
func genLongSticky(t *rapid.T) (string, string) {
	z := rapid.IntRange(700, 1500).Draw(t, "zrun")
	zeros := strings.Repeat("0", z)
	switch rapid.IntRange(0, 3).Draw(t, "stickykind") {
	case 0: // leading fraction zeros, digits, exponent that brings them back
		nd := rapid.IntRange(1, 20).Draw(t, "snd")
		ds := strconv.Itoa(rapid.IntRange(1, 9).Draw(t, "sd0")) + digitString(t, nd-1, "sd")
		shift := rapid.IntRange(-8, 25).Draw(t, "shift")
		lead := rapid.SampledFrom([]string{"0.", ".", "00.", "0.0"}).Draw(t, "slead")
		return lead + zeros + ds + rapid.SampledFrom([]string{"e", "E", "e+"}).Draw(t, "sech") + strconv.Itoa(z+shift), "long:zeros-digits-exp"
	case 1: // tie integer, point, zeros, deciding digit
		j := rapid.Int64Range(1<<52, 1<<53-1).Draw(t, "tiem")
		sh := rapid.IntRange(1, 10).Draw(t, "tiesh")
		// (2j+1)·2^(sh-1) lies exactly half way between the doubles j·2^sh and (j+1)·2^sh
		tie := new(big.Int).Lsh(big.NewInt(2*j+1), uint(sh-1)).String()
		tail := rapid.SampledFrom([]string{"1", "5", "9", "0"}).Draw(t, "tietail")
		return tie + "." + zeros + tail, "long:tie-zeros-digit"
	case 2: // tie just missed from below: …4999…9 with a long run of nines
		j := rapid.Int64Range(1<<52, 1<<53-1).Draw(t, "tiem")
		sh := rapid.IntRange(1, 10).Draw(t, "tiesh")
		tie := new(big.Int).Lsh(big.NewInt(2*j+1), uint(sh-1))
		tie.Sub(tie, big.NewInt(1))
		return tie.String() + "." + strings.Repeat("9", z) + rapid.SampledFrom([]string{"", "8", "e0", "e-0"}).Draw(t, "ninetail"), "long:tie-minus-nines"
	default: // a tie scaled down: digits of the tie, then zeros and a digit, all behind "0." with an exponent
		j := rapid.Int64Range(1<<52, 1<<53-1).Draw(t, "tiem")
		tie := big.NewInt(2*j + 1).String() // half way between 2j and 2j+2
		tail := rapid.SampledFrom([]string{"1", "0", "3"}).Draw(t, "tietail")
		return "0." + tie + zeros + tail + "e" + strconv.Itoa(len(tie)), "long:scaled-tie"
	}
}

// midpointDecimal is the exact decimal expansion of (x+y)/2 for adjacent positive doubles.
func midpointDecimal(x, y float64) m06.Dec {
	// x = mx·2^e, y = my·2^e' ; bring both to the smaller exponent, add, halve by lowering the exponent.
	mx, ex := m06.Decompose(x)
	my, ey := m06.Decompose(y)
	for ex > ey {
		mx.Lsh(mx, 1)
		ex--
	}
	for ey > ex {
		my.Lsh(my, 1)
		ey--
	}
	sum := mx.Add(mx, my) // (x+y) = sum·2^ex, midpoint = sum·2^(ex-1)
	return m06.DecOfBinary(sum, ex-1)
}

func genHexCore(t *rapid.T) (string, string) {
	p := rapid.SampledFrom([]string{"0x", "0X"}).Draw(t, "hexprefix")
	if rapid.IntRange(0, 3).Draw(t, "hexspecial") == 0 {
		return p + rapid.SampledFrom([]string{"0", "00ff", "7fffffffffffffff", "8000000000000000", "8000000000000001", "FFFFFFFFFFFFFFFF", "10000000000000000", "20000000000001", "20000000000000", "1fffffffffffff", "3ffffffffffffe", "3fffffffffffff", "100000000000008001", "100000000000008000", "1000000000000007ff", "fffffffffffff800", "fffffffffffffbff", "fffffffffffffc00"}).Draw(t, "hexs"), "hex"
	}
	n := rapid.IntRange(1, 6).Draw(t, "hexlen")
	if rapid.IntRange(0, 2).Draw(t, "hexlong") == 0 {
		n = rapid.IntRange(12, 30).Draw(t, "hexlen2")
	}
	const hd = "0123456789abcdefABCDEF"
	b := make([]byte, n)
	for i := range b {
		b[i] = hd[rapid.IntRange(0, len(hd)-1).Draw(t, "hd")]
	}
	return p + string(b), "hex"
}

func genWS(t *rapid.T, label string) []uint16 {
	if rapid.IntRange(0, 9).Draw(t, label+"-has") < 6 {
		return nil
	}
	n := rapid.IntRange(1, 3).Draw(t, label+"-n")
	out := make([]uint16, n)
	for i := range out {
		out[i] = rapid.SampledFrom(m06.StrWhiteSpaceChars).Draw(t, label)
	}
	return out
}

// characters used by one-edit mutations: everything the grammars use, look-alikes and near white space.
// lookAlikes: non-ASCII characters that Go's unicode predicates and case mappings (IsDigit, IsNumber,
// IsLetter, IsSpace, ToLower, ToUpper, simple folding) relate to the ASCII digits, letters and blanks of
// the ES5 grammars, although none of them is a digit, a radix letter, an exponent indicator or a
// StrWhiteSpaceChar: KELVIN SIGN (lower case k), I WITH DOT ABOVE (lower case i), DOTLESS I (upper
// case I), LONG S (upper case S), ANGSTROM SIGN, fullwidth digits and letters, Arabic-Indic /
// extended Arabic-Indic / Devanagari / Thai digits, superscripts and subscripts, Roman numerals, ordinal
// indicators, Greek and Cyrillic look-alikes of a e x X, ZWSP, NEL, WORD JOINER, SOFT HYPHEN, FIGURE
// DASH / MINUS SIGN / FULLWIDTH PLUS, fullwidth full stop.
var lookAlikes = []uint16{0x212A, 0x0130, 0x0131, 0x017F, 0x212B, 0xFF10, 0xFF11, 0xFF19, 0xFF21, 0xFF26, 0xFF3A, 0xFF41, 0xFF45, 0xFF58, 0xFF5A,
	0x0660, 0x0661, 0x0669, 0x06F1, 0x0967, 0x0E51, 0x00B2, 0x00B3, 0x00B9, 0x2070, 0x2081, 0x2160, 0x2167, 0x00AA, 0x00BA, 0x03B1, 0x0430, 0x0435, 0x0445, 0x0425, 0x0456,
	0x200B, 0x0085, 0x2060, 0x00AD, 0x2012, 0x2212, 0xFF0B, 0xFF0E, 0x066B}

var mutChars = append([]uint16{'0', '1', '5', '7', '8', '9', '.', '.', 'e', 'E', '+', '-', 'x', 'X', '_', 'a', 'f', 'I', 'n', 'i', 't', 'y', 'N', 'p', 'b', 'o', '$', ',', ' ', '\t', '\n', 0x00A0, 0x2028, 0xFEFF, 0x0000, 0x200B, 0x0085, 0x0661, 0xFF11, 0x00E9}, lookAlikes...)

func mutate16(t *rapid.T, u []uint16, chars []uint16) ([]uint16, string) {
	out := append([]uint16(nil), u...)
	op := rapid.SampledFrom([]string{"insert", "insert", "delete", "replace", "duplicate", "swap"}).Draw(t, "mutop")
	if len(out) == 0 {
		op = "insert"
	}
	switch op {
	case "insert":
		p := rapid.IntRange(0, len(out)).Draw(t, "mutpos")
		c := rapid.SampledFrom(chars).Draw(t, "mutchar")
		out = append(out[:p:p], append([]uint16{c}, out[p:]...)...)
	case "delete":
		p := rapid.IntRange(0, len(out)-1).Draw(t, "mutpos")
		out = append(out[:p:p], out[p+1:]...)
	case "replace":
		p := rapid.IntRange(0, len(out)-1).Draw(t, "mutpos")
		out[p] = rapid.SampledFrom(chars).Draw(t, "mutchar")
	case "duplicate":
		p := rapid.IntRange(0, len(out)-1).Draw(t, "mutpos")
		out = append(out[:p:p], append([]uint16{out[p]}, out[p:]...)...)
	case "swap":
		if len(out) >= 2 {
			p := rapid.IntRange(0, len(out)-2).Draw(t, "mutpos")
			out[p], out[p+1] = out[p+1], out[p]
		}
	}
	return out, op
}

var nearMissPool = []string{"0x", "0X", "+0x10", "-0x10", "1e", "1e+", "1e-", ".5.", "1_0", "1_000", "0x1_0", "infinity", "INFINITY", "inf", "Inf", "+inf", "-INF", "iNfInItY", "Infinit", "Infinity5", "InfinityInfinity",
	"-Infinity", "+Infinity", "- Infinity", "0x1.8p1", "0x1p3", "-0x10p0", "0x.8p1", "0b1", "0B11", "0o7", "0O17", "١", "١٢", "１２", ".", "+", "-", "+-1", "-+1", "++1", "--1", "1 2", "1,5", "1f", "1d", "1n", "1L",
	"1e5.5", "..5", "5..", "0.0.0", "e5", "E5", ".e5", "0e", "0x1g", "0xG", "00x10", "0 x10", "1e 5", "1 e5", "\u00001", "1\u0000", "NaN", "nan", "undefined", "null", "true", "1e1_0", "1__0", "_1", "1_", "1._5", "1_.5", "0_1",
	"1e1000", "-1e1000", "1e-1000", "1e+400", "0.0000001", "-0", "+0", "-0.0", "-.0e5", "00", "010", "0010", "08", "-010", "0.1e-0", "1E+2", "​1", "1​", "\u00851", "1\u0085", "１", "1é", "é1", "12px", "3.14abc", "-.5e", "1.e5x", "1e+x"}

// genWholeString: a candidate for ToNumber on strings: StrWhiteSpace(opt) StrNumericLiteral StrWhiteSpace(opt),
// possibly with one edit.
func genWholeString(t *rapid.T) ([]uint16, string, string) {
	var core, kind string
	switch k := rapid.IntRange(0, 19).Draw(t, "skind"); {
	case k < 13:
		core, kind = genDecimalCore(t)
		core = rapid.SampledFrom([]string{"", "", "+", "-"}).Draw(t, "sign") + core
	case k < 17:
		core, kind = genHexCore(t)
		if rapid.IntRange(0, 5).Draw(t, "signedhex") == 0 {
			core, kind = rapid.SampledFrom([]string{"+", "-"}).Draw(t, "hsign")+core, "signed-hex"
		}
	case k < 18:
		return genWS(t, "onlyws"), "white-space-only", "none"
	default:
		return harness.UTF16(rapid.SampledFrom(nearMissPool).Draw(t, "pool")), "near-miss-pool", "none"
	}
	u := append(genWS(t, "lws"), harness.UTF16(core)...)
	u = append(u, genWS(t, "tws")...)
	mut := "none"
	if rapid.IntRange(0, 9).Draw(t, "mutate") < 4 && len(u) < 200 {
		u, mut = mutate16(t, u, mutChars)
	}
	return u, kind, mut
}

var junkSuffixes = append(lookAlikeSuffixes(), "px", "e", "e+", "e-", ".", "..", ".5", "_1", "_", "x", "x1", " 1", " ", "Infinity", "e5", "-", "+1", "-1", "n", "f", "p1", " ", "é", "١", ",5", "$", "\u00000", "\n2")

// lookAlikeSuffixes: every look-alike alone, followed by a digit and between letters, plus an astral
// digit (U+1D7CE MATHEMATICAL BOLD DIGIT ZERO) and an astral cased letter (U+10400).
func lookAlikeSuffixes() []string {
	var out []string
	for _, c := range lookAlikes {
		out = append(out, string(rune(c)), string(rune(c))+"1", string(rune(c))+"z")
	}
	return append(out, "\U0001D7CE", "\U0001D7CE1", "\U00010400", "\U00010400f")
}

// genPrefixString: a candidate for parseFloat: like genWholeString but often followed by junk.
func genPrefixString(t *rapid.T) ([]uint16, string, string) {
	u, kind, mut := genWholeString(t)
	if rapid.IntRange(0, 9).Draw(t, "junk") < 4 {
		u = append(u, harness.UTF16(rapid.SampledFrom(junkSuffixes).Draw(t, "suffix"))...)
		kind += "+junk"
	}
	return u, kind, mut
}

func isPlainDigits(u []uint16) bool {
	if len(u) == 0 || len(u) > 15 {
		return false
	}
	for _, c := range u {
		if c < '0' || c > '9' {
			return false
		}
	}
	return true
}

func asciiLower(u []uint16) string {
	b := make([]byte, 0, len(u))
	for _, c := range u {
		switch {
		case c >= 'A' && c <= 'Z':
			b = append(b, byte(c)+32)
		case c < 0x80:
			b = append(b, byte(c))
		default:
			b = append(b, 0xff)
		}
	}
	return string(b)
}

// intDigitsBeforePoint counts the digits of the integer part of the first decimal literal in u
// (after white space and sign), not counting leading zeros: the quantity that decides finding
// C06-STRCONV-800.
func intDigitsBeforePoint(u []uint16) int {
	i := 0
	for i < len(u) && m06.IsStrWS(u[i]) {
		i++
	}
	if i < len(u) && (u[i] == '+' || u[i] == '-') {
		i++
	}
	for i < len(u) && u[i] == '0' {
		i++
	}
	n := 0
	for i < len(u) && (u[i] >= '0' && u[i] <= '9' || u[i] == '_') {
		i++
		n++
	}
	return n
}
