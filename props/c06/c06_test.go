// Package c06 decides property C06: numbers and their text forms convert exactly in both directions
// (ES5.1 9.8.1, 9.3.1, 7.8.3, 15.1.2.2, 15.1.2.3, 15.7.4.2, 15.7.4.5-7).
package c06

import (
	"fmt"
	"math"
	"strconv"
	_ "strings"
	"testing"

	"github.com/robertkrimen/otto"
	"pgregory.net/rapid"

	"verif/lib/gen"
	"verif/lib/harness"
	"verif/lib/m06"
)

func TestMain(m *testing.M) { harness.Main(m, "C06") }

// ---- otto access -------------------------------------------------------------------------------

var (
	vm     *otto.Otto
	vmUses int
)

func getVM() *otto.Otto {
	if vm == nil || vmUses > 3000 {
		vm = otto.New()
		vmUses = 0
	}
	vmUses++
	return vm
}

// evalDesc evaluates js and describes the result: the string value, or "throws:Name", "panic:…",
// "not a string: …".
func evalDesc(js string) string {
	r := harness.Run(getVM(), js)
	switch {
	case r.Panicked:
		vm = nil // do not trust a runtime a panic went through
		return "panic:" + fmt.Sprint(r.Panic)
	case r.Err != nil:
		return "throws:" + harness.ErrName(r.Err)
	case !r.Value.IsString():
		return "not a string: " + harness.Repr(r.Value)
	}
	s, _ := r.Value.ToString()
	return s
}

// evalArray evaluates js, which must yield an array, and returns its elements.
func evalArray(js string, n int) ([]otto.Value, string) {
	r := harness.Run(getVM(), js)
	switch {
	case r.Panicked:
		vm = nil
		return nil, "panic:" + fmt.Sprint(r.Panic)
	case r.Err != nil:
		return nil, "throws:" + harness.ErrName(r.Err)
	case !r.Value.IsObject():
		return nil, "not an array: " + harness.Repr(r.Value)
	}
	obj := r.Value.Object()
	out := make([]otto.Value, n)
	for i := range out {
		v, err := obj.Get(strconv.Itoa(i))
		if err != nil {
			return nil, "element " + strconv.Itoa(i) + ": " + err.Error()
		}
		out[i] = v
	}
	return out, ""
}

func numOf(v otto.Value) (float64, bool) {
	if !v.IsNumber() {
		return 0, false
	}
	f, err := v.ToFloat()
	return f, err == nil
}

func strOf(v otto.Value) (string, bool) {
	if !v.IsString() {
		return "", false
	}
	s, err := v.ToString()
	return s, err == nil
}

func parseLit(l string) float64 {
	switch l {
	case "NaN":
		return math.NaN()
	case "Infinity":
		return math.Inf(1)
	case "-Infinity":
		return math.Inf(-1)
	case "-0":
		return math.Copysign(0, -1)
	}
	f, err := strconv.ParseFloat(l, 64)
	if err != nil {
		panic("bad numeric literal in case: " + l)
	}
	return f
}

// jsNum renders a double as a parenthesised ES5 expression denoting exactly that double. The
// literal is in d.ddde±xx form, which otto's lexer always stores as a float64 (never as an int64).
func jsNum(x float64) string { return "(" + harness.NumLit(x) + ")" }

func isFinite(x float64) bool { return !math.IsNaN(x) && !math.IsInf(x, 0) }

func plainInt(x float64) bool {
	return isFinite(x) && x == math.Trunc(x) && math.Abs(x) < 1<<31 && !(x == 0 && math.Signbit(x))
}

func same(a, b float64) bool { return harness.SameNum(a, b) }

// ---- doubles ------------------------------------------------------------------------------------

var thresholds = func() []float64 {
	out := []float64{1e21, 1e20, 1e22, 1e-6, 1e-7, 1e-5, 1e-8, 1 << 53, 1 << 63, 1 << 64, 1 << 31, 1 << 32, 1e15, 1e16, 1e17, 0.1, 0.5, 1, 10, 100, 1000, 1e100, 1e-100, 1e300, 1e-300, 2.2250738585072014e-308, 5e-324, math.MaxFloat64}
	return out
}()

func ulps(x float64, n int) float64 {
	for ; n > 0; n-- {
		x = math.Nextafter(x, math.Inf(1))
	}
	for ; n < 0; n++ {
		x = math.Nextafter(x, 0)
	}
	return x
}

func digitString(t *rapid.T, n int, label string) string {
	b := make([]byte, n)
	for i := range b {
		b[i] = byte('0' + rapid.IntRange(0, 9).Draw(t, label))
	}
	return string(b)
}

// genDouble draws a double for the number→text facets together with a class label.
func genDouble(t *rapid.T) (float64, string) {
	var x float64
	var class string
	switch k := rapid.IntRange(0, 19).Draw(t, "xkind"); {
	case k < 4: // k significant digits × 10^e
		nd := rapid.IntRange(1, 17).Draw(t, "ndigits")
		ds := strconv.Itoa(rapid.IntRange(1, 9).Draw(t, "d0")) + digitString(t, nd-1, "d")
		e := rapid.IntRange(-340, 310).Draw(t, "e10")
		if rapid.Bool().Draw(t, "smallexp") {
			e = rapid.IntRange(-30, 25).Draw(t, "e10s")
		}
		x, class = m06.DecimalToDouble(ds, e-nd+1), "digits:"+strconv.Itoa(nd)
	case k < 7: // neighbours of layout / magnitude thresholds and of powers of ten
		var base float64
		if rapid.Bool().Draw(t, "pow10") {
			base = m06.DecimalToDouble("1", rapid.IntRange(-323, 308).Draw(t, "p10"))
		} else {
			base = rapid.SampledFrom(thresholds).Draw(t, "thr")
		}
		x, class = ulps(base, rapid.IntRange(-40, 40).Draw(t, "ulps")), "threshold-neighbour"
	case k < 10:
		x, class = math.Float64frombits(rapid.Uint64().Draw(t, "bits")), "bits"
	case k < 12: // dyadic rationals J/2^m: exact decimal ties for toFixed(m-1), toPrecision(sig-1)
		j := rapid.IntRange(0, 1<<22).Draw(t, "j")*2 + 1
		m := rapid.IntRange(1, 24).Draw(t, "m")
		x, class = math.Ldexp(float64(j), -m), "dyadic"
	case k < 14: // decimals ending in 5 (near ties: the binary value decides)
		nd := rapid.IntRange(0, 15).Draw(t, "nd5")
		ds := digitString(t, nd, "d5") + "5"
		e := rapid.IntRange(-25, 22).Draw(t, "e5")
		x, class = m06.DecimalToDouble(ds, e-len(ds)), "ends-in-5"
	case k < 16: // integers
		switch rapid.IntRange(0, 3).Draw(t, "ikind") {
		case 0:
			x = float64(rapid.Int64Range(0, 1<<53).Draw(t, "i53"))
		case 1:
			x = float64(rapid.Uint64().Draw(t, "u64"))
		case 2:
			x = math.Ldexp(float64(rapid.Int64Range(1, 1<<53).Draw(t, "im")), rapid.IntRange(0, 971).Draw(t, "ie"))
		default:
			x = float64(rapid.IntRange(0, 100000).Draw(t, "ismall"))
		}
		class = "integer"
	case k < 17: // subnormals
		x, class = math.Float64frombits(rapid.Uint64Range(1, 1<<52-1).Draw(t, "sub")), "subnormal"
	default:
		x, class = gen.Double().Draw(t, "pool"), "pool"
	}
	if !math.IsNaN(x) && rapid.IntRange(0, 2).Draw(t, "neg") == 0 {
		x = -x
	}
	return x, class
}
