#!/usr/bin/env python3
"""Regenerates MANIFEST.json from tools/manifest_src.json (per-property texts) and the set of property packages that exist.
A property is claimed only when it has an entry with "claimed": true in manifest_src.json; everything else is listed under
not_applicable with its reason."""
import json,os,sys
root=os.path.dirname(os.path.dirname(os.path.abspath(__file__)))
src=json.load(open(os.path.join(root,'tools','manifest_src.json')))
props=[json.loads(l) for l in open(os.path.join(root,'properties.jsonl'))]
checks=[];na=[]
for p in props:
    pid=p['id']; e=src['properties'].get(pid,{})
    frag=os.path.join(root,'props',pid.lower(),'manifest.json')
    if os.path.exists(frag): e=json.load(open(frag))
    if e.get('claimed'):
        checks.append({
            "property_id":pid,
            "quick_cmd":"./check %s quick"%pid,
            "thorough_cmd":"./check %s thorough"%pid,
            "evidence_file":"/verif/evidence/%s.json"%pid,
            "replay_cmd_template":"./check %s --replay {path}"%pid,
            "engine":"rapid+otto",
            "level_claimed":{"category":"exploration","text":e['level_text'],"design_ref":e.get('design_ref',"DESIGN.md §4 "+pid)},
            "level_note":e['level_note'],
            "technique":e['technique'],
        })
    else:
        na.append({"property_id":pid,"reason":e.get('reason',"check not built yet in this session; planned in DESIGN.md §4 (property-based testing applies)")})
m={"version":1,
   "setup_cmd":"./check --setup",
   "hooks":src['hooks'],
   "engines":[{"name":"rapid+otto","path":"/verif/check","serves_properties":[c['property_id'] for c in checks],
               "kind_free_text":"pgregory.net/rapid v1.3.0 property-based tests (plus finite enumerations and, in the thorough tier of C02/C04, native go fuzzing) against ES5.1 reference models under /verif/lib, driven by /verif/cmd/vcheck"}],
   "checks":checks,
   "notes":src['notes'],
   "not_applicable":na}
json.dump(m,open(os.path.join(root,'MANIFEST.json'),'w'),indent=1)
print("claimed:",[c['property_id'] for c in checks])
